#!/bin/sh
# tools_eval_seeded.sh [id ...] — run the quick checks against every seeded change under
# /verif/seeded (or the given ones); writes seeded/<id>/detection.txt.  /repo is restored after
# each change.
cd /verif/seeded || exit 2
IDS=${*:-$(ls -d */ | tr -d /)}
for id in $IDS; do
  [ -f /verif/seeded/$id/patch.diff ] || continue
  echo "#### $id"
  /verif/tools_eval_mutant.sh /verif/seeded/$id/patch.diff > /verif/seeded/$id/detection.txt 2>&1
  grep -E "^== |class" /verif/seeded/$id/detection.txt
done
