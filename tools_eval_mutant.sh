#!/bin/sh
# tools_eval_mutant.sh <patch.diff> [ID ...]   — apply a seeded change to /repo, run the quick
# checks (all claimed properties, or the given ones), undo the change.  Prints one line per check.
set -u
PATCH=$(readlink -f "$1"); shift
IDS=${*:-"C13 C14 C15 C16 C17 C19 C20"}
cd /repo || exit 2
if [ -n "$(git status --porcelain --untracked-files=no)" ]; then echo "/repo is dirty"; exit 2; fi
trap 'git -C /repo checkout -- . ; ' EXIT INT TERM
mkdir -p /tmp/evalout && cp /verif/known_findings.json /tmp/evalout/ && rm -rf /tmp/evalout/known && cp -r /verif/known /tmp/evalout/known && git apply "$PATCH" || { echo "patch does not apply"; exit 2; }
for id in $IDS; do
  out=$(DRIVER_NO_MINIMISE=1 VERIF_OUT_DIR=/tmp/evalout /verif/check "$id" --tier quick ${EVAL_ARGS:-} 2>&1); rc=$?
  echo "== $id exit=$rc"
  echo "$out" | grep -E "^VIOLATION|^  class|HARNESS" | head -12
done
