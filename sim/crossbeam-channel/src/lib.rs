//! crossbeam-channel shim over the simulated mpsc channel (STUB: same observable contract for the
//! API surface the CLI uses — linearizable FIFO, iteration ends when every sender is gone,
//! `send` fails once the receiver is dropped).
use stylua_verif_seams::std::sync::mpsc;
pub use std::sync::mpsc::{RecvError, SendError, TryRecvError};

pub struct Sender<T>(mpsc::Sender<T>);
pub struct Receiver<T>(mpsc::Receiver<T>);
impl<T> Clone for Sender<T> {
    fn clone(&self) -> Self {
        Sender(self.0.clone())
    }
}
impl<T> Sender<T> {
    pub fn send(&self, t: T) -> Result<(), SendError<T>> {
        self.0.send(t)
    }
}
pub fn unbounded<T>() -> (Sender<T>, Receiver<T>) {
    let (a, b) = mpsc::channel();
    (Sender(a), Receiver(b))
}
impl<T> Receiver<T> {
    pub fn recv(&self) -> Result<T, RecvError> {
        self.0.recv()
    }
    pub fn try_recv(&self) -> Result<T, TryRecvError> {
        self.0.try_recv()
    }
    pub fn iter(&self) -> mpsc::Iter<'_, T> {
        self.0.iter()
    }
}
impl<T> IntoIterator for Receiver<T> {
    type Item = T;
    type IntoIter = mpsc::IntoIter<T>;
    fn into_iter(self) -> mpsc::IntoIter<T> {
        self.0.into_iter()
    }
}
impl<'a, T> IntoIterator for &'a Receiver<T> {
    type Item = T;
    type IntoIter = mpsc::Iter<'a, T>;
    fn into_iter(self) -> mpsc::Iter<'a, T> {
        self.0.iter()
    }
}
