//! crossbeam-channel shim over the simulated mpsc channel (STUB: same observable contract for the
//! API surface the CLI uses — linearizable FIFO, iteration ends when every sender is gone,
//! `send` fails once the receiver is dropped).
use stylua_verif_seams::std::sync::mpsc;
pub use std::sync::mpsc::{RecvError, RecvTimeoutError, SendError, TryRecvError, TrySendError};

enum Tx<T> {
    Unbounded(mpsc::Sender<T>),
    Bounded(mpsc::SyncSender<T>),
}
pub struct Sender<T>(Tx<T>);
pub struct Receiver<T>(mpsc::Receiver<T>);
impl<T> Clone for Sender<T> {
    fn clone(&self) -> Self {
        match &self.0 {
            Tx::Unbounded(s) => Sender(Tx::Unbounded(s.clone())),
            Tx::Bounded(s) => Sender(Tx::Bounded(s.clone())),
        }
    }
}
impl<T> Sender<T> {
    pub fn send(&self, t: T) -> Result<(), SendError<T>> {
        match &self.0 {
            Tx::Unbounded(s) => s.send(t),
            Tx::Bounded(s) => s.send(t),
        }
    }
    pub fn try_send(&self, t: T) -> Result<(), TrySendError<T>> {
        match &self.0 {
            Tx::Unbounded(s) => s.send(t).map_err(|e| TrySendError::Disconnected(e.0)),
            Tx::Bounded(s) => s.try_send(t),
        }
    }
}
pub fn unbounded<T>() -> (Sender<T>, Receiver<T>) {
    let (a, b) = mpsc::channel();
    (Sender(Tx::Unbounded(a)), Receiver(b))
}
pub fn bounded<T>(cap: usize) -> (Sender<T>, Receiver<T>) {
    let (a, b) = mpsc::sync_channel(cap);
    (Sender(Tx::Bounded(a)), Receiver(b))
}
impl<T> Receiver<T> {
    pub fn recv(&self) -> Result<T, RecvError> {
        self.0.recv()
    }
    pub fn try_recv(&self) -> Result<T, TryRecvError> {
        self.0.try_recv()
    }
    pub fn recv_timeout(&self, d: std::time::Duration) -> Result<T, RecvTimeoutError> {
        self.0.recv_timeout(d)
    }
    pub fn iter(&self) -> mpsc::Iter<'_, T> {
        self.0.iter()
    }
}
impl<T> IntoIterator for Receiver<T> {
    type Item = T;
    type IntoIter = mpsc::IntoIter<T>;
    fn into_iter(self) -> mpsc::IntoIter<T> {
        self.0.into_iter()
    }
}
impl<'a, T> IntoIterator for &'a Receiver<T> {
    type Item = T;
    type IntoIter = mpsc::Iter<'a, T>;
    fn into_iter(self) -> mpsc::Iter<'a, T> {
        self.0.iter()
    }
}
