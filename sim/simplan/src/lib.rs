//! Plan (driver -> simulated process) and the trace line grammar (simulated process -> driver).
//! One plan file fully determines one simulated execution of the `stylua` binary.
use serde::{Deserialize, Serialize};

#[derive(Serialize, Deserialize, Clone, Debug, Default, PartialEq)]
pub struct Sched {
    /// uniform | sticky | pct | starve | conflict | delay | replay
    pub strategy: String,
    /// delay: a task whose pending operation's label starts with this prefix is held back while
    /// anything else can run (delay-bounded scheduling aimed at one kind of operation)
    #[serde(default)]
    pub target: String,
    pub seed: u64,
    /// sticky: stay probability in percent; starve: probability (percent) that the victim may run
    pub p: u32,
    /// pct: number of priority change points
    pub d: u32,
    /// starve: victim task id
    pub victim: u32,
    /// replay: (step, task) — at scheduler step `step` run `task`; every other step follows the
    /// non-preemptive default (keep the current task if runnable, else the lowest runnable id)
    #[serde(default)]
    pub overrides: Vec<(u64, u32)>,
    /// replay: (k, idx) — the k-th `wake_one` wakes the idx-th waiter (default: the first)
    #[serde(default)]
    pub wake_overrides: Vec<(u64, u32)>,
}

#[derive(Serialize, Deserialize, Clone, Debug, Default, PartialEq)]
pub struct Fault {
    /// fs.read | fs.write.open | fs.write.data | format | stdin.read | stdout.write
    pub site: String,
    /// `$W/...` normalised path for fs/format sites ("stdin" for format of stdin), "" for streams
    pub path: String,
    /// fire on the nth (0-based) occurrence of (site, path)
    pub nth: u32,
    /// EACCES | EIO | ENOSPC | EINTR | short | EPIPE | panic | verify
    pub kind: String,
    /// short: maximum number of bytes transferred
    #[serde(default)]
    pub arg: u64,
}

#[derive(Serialize, Deserialize, Clone, Debug, Default, PartialEq)]
pub struct Plan {
    /// absolute path of the scratch world; shown as `$W` in traces
    pub world_root: String,
    pub trace_path: String,
    pub sched: Sched,
    pub max_steps: u64,
    /// seeds the per-directory order of the walker (0 = sort by name)
    pub dir_key: u64,
    #[serde(default)]
    pub faults: Vec<Fault>,
}

pub fn splitmix(s: &mut u64) -> u64 {
    *s = s.wrapping_add(0x9E3779B97F4A7C15);
    let mut z = *s;
    z = (z ^ (z >> 30)).wrapping_mul(0xBF58476D1CE4E5B9);
    z = (z ^ (z >> 27)).wrapping_mul(0x94D049BB133111EB);
    z ^ (z >> 31)
}

/// FNV-1a, used wherever a stable hash is needed (never std's RandomState).
pub fn fnv(bytes: &[u8], seed: u64) -> u64 {
    let mut h = 0xcbf29ce484222325u64 ^ seed.wrapping_mul(0x9E3779B97F4A7C15);
    for b in bytes {
        h ^= *b as u64;
        h = h.wrapping_mul(0x100000001b3);
    }
    let mut s = h;
    splitmix(&mut s)
}

/// Reserved exit codes of the simulated process (never produced by stylua itself).
pub const EXIT_DEADLOCK: i32 = 98;
pub const EXIT_STEP_BOUND: i32 = 97;
pub const EXIT_REPLAY_DIVERGED: i32 = 96;
pub const EXIT_HARNESS: i32 = 95;
