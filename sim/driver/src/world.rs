//! Worlds (a directory tree + environment), invocations (argv, stdin, threads, faults,
//! schedule) and cases (a short history of invocations over one world).
use serde::{Deserialize, Serialize};
use simplan::{Fault, Sched};
use std::collections::BTreeMap;
use std::path::{Path, PathBuf};

/// Format options as written on the command line: (option name, value as spelt).
pub type Overrides = Vec<(String, String)>;

#[derive(Serialize, Deserialize, Clone, Debug, Default, PartialEq)]
pub struct Opts {
    pub check: bool,
    /// None = not given (standard)
    pub output_format: Option<String>,
    pub verify: bool,
    pub verbose: bool,
    /// --color value as spelt (None = not given)
    #[serde(default)]
    pub color: Option<String>,
    pub config_path: Option<String>,
    pub search_parents: bool,
    pub no_editorconfig: bool,
    pub stdin_filepath: Option<String>,
    pub respect_ignores: bool,
    pub allow_hidden: bool,
    pub globs: Option<Vec<String>>,
    pub num_threads: usize,
    pub range_start: Option<usize>,
    pub range_end: Option<usize>,
    pub overrides: Overrides,
    /// path arguments, relative to cwd; "-" = stdin
    pub files: Vec<String>,
}

impl Opts {
    pub fn to_argv(&self) -> Vec<String> {
        let mut a: Vec<String> = Vec::new();
        if self.check {
            a.push("--check".into());
        }
        if let Some(f) = &self.output_format {
            a.push(format!("--output-format={f}"));
        }
        if self.verify {
            a.push("--verify".into());
        }
        if self.verbose {
            a.push("--verbose".into());
        }
        if let Some(c) = &self.color {
            a.push("--color".into());
            a.push(c.clone());
        }
        if let Some(p) = &self.config_path {
            a.push("--config-path".into());
            a.push(p.clone());
        }
        if self.search_parents {
            a.push("--search-parent-directories".into());
        }
        if self.no_editorconfig {
            a.push("--no-editorconfig".into());
        }
        if let Some(p) = &self.stdin_filepath {
            a.push("--stdin-filepath".into());
            a.push(p.clone());
        }
        if self.respect_ignores {
            a.push("--respect-ignores".into());
        }
        if self.allow_hidden {
            a.push("--allow-hidden".into());
        }
        a.push("--num-threads".into());
        a.push(self.num_threads.to_string());
        if let Some(s) = self.range_start {
            a.push("--range-start".into());
            a.push(s.to_string());
        }
        if let Some(s) = self.range_end {
            a.push("--range-end".into());
            a.push(s.to_string());
        }
        for (k, v) in &self.overrides {
            let flag = format!("--{}", k.replace('_', "-"));
            a.push(flag);
            if k != "sort_requires" {
                a.push(v.clone());
            }
        }
        if let Some(gs) = &self.globs {
            for g in gs {
                a.push("-g".into());
                a.push(g.clone());
            }
        }
        a.push("--".into());
        a.extend(self.files.iter().cloned());
        a
    }
}

#[derive(Serialize, Deserialize, Clone, Debug, Default, PartialEq)]
pub struct Invocation {
    pub opts: Opts,
    #[serde(default)]
    pub stdin: Option<Vec<u8>>,
    pub faults: Vec<Fault>,
    pub sched: Sched,
    pub dir_key: u64,
    /// what the user does to the tree before this invocation: (world-relative path, new bytes)
    #[serde(default)]
    pub pre_edits: Vec<(String, Vec<u8>)>,
}

#[derive(Serialize, Deserialize, Clone, Debug, Default, PartialEq)]
pub struct World {
    /// regular files: path relative to the world root -> bytes
    pub files: BTreeMap<String, Vec<u8>>,
    /// working directory relative to the world root
    pub cwd: String,
    /// HOME / XDG_CONFIG_HOME relative to the world root (None = unset)
    pub home: Option<String>,
    pub xdg: Option<String>,
    /// symbolic links to regular files: link path (world-relative) -> target as stored in the
    /// link (relative to the link's directory)
    #[serde(default)]
    pub symlinks: BTreeMap<String, String>,
    /// run the CLI as an unprivileged user (uid/gid 65534) so that permission bits bite;
    /// every directory is then 0777 and every file 0666 unless `modes` says otherwise
    #[serde(default)]
    pub unpriv: bool,
    /// permission bits of files / directories (world-relative path -> mode), applied last
    #[serde(default)]
    pub modes: BTreeMap<String, u32>,
    /// create the files in reverse order: on tmpfs `readdir` lists the newest entry first, so
    /// this flips the order in which a directory listing presents its entries (a seam for code
    /// that decides by listing order)
    #[serde(default)]
    pub create_rev: bool,
    /// model-only knob: `.stylua.toml` is looked for before `stylua.toml` (which of the two names
    /// wins when a directory holds both is not documented; see `check::execute`)
    #[serde(default)]
    pub dot_first: bool,
}

#[derive(Serialize, Deserialize, Clone, Debug, Default, PartialEq)]
pub struct Case {
    pub family: String,
    pub world: World,
    pub invs: Vec<Invocation>,
}

#[derive(Clone, Debug, PartialEq, Eq)]
pub struct FileState {
    pub bytes: Vec<u8>,
    pub mtime_ns: i128,
    pub ino: u64,
}

/// Snapshot of every entry below the world root: files with bytes+mtime, and the set of
/// directories.
#[derive(Clone, Debug, PartialEq, Eq, Default)]
pub struct Snapshot {
    pub files: BTreeMap<String, FileState>,
    pub dirs: Vec<String>,
    /// symbolic links: path -> target text
    pub links: BTreeMap<String, String>,
}

impl World {
    /// The regular file a world-relative path denotes, following a file symlink if it is one.
    pub fn real_path(&self, p: &str) -> Option<String> {
        if self.files.contains_key(p) {
            return Some(p.to_string());
        }
        let target = self.symlinks.get(p)?;
        let dir = match p.rfind('/') {
            Some(i) => &p[..i],
            None => "",
        };
        let real = world_rel(dir, target)?;
        if self.files.contains_key(&real) {
            Some(real)
        } else {
            None
        }
    }

    /// Directories that hold both `stylua.toml` and `.stylua.toml`.
    pub fn both_config_names(&self) -> Vec<String> {
        self.files
            .keys()
            .filter_map(|k| k.strip_suffix(".stylua.toml").map(|d| d.to_string()))
            .filter(|d| self.files.contains_key(&format!("{d}stylua.toml")))
            .collect()
    }

    pub fn materialise(&self, root: &Path) -> std::io::Result<()> {
        if root.exists() {
            std::fs::remove_dir_all(root)?;
        }
        std::fs::create_dir_all(root)?;
        std::fs::create_dir_all(root.join(&self.cwd))?;
        let mut order: Vec<(&String, &Vec<u8>)> = self.files.iter().collect();
        if self.create_rev {
            order.reverse();
        }
        for (p, bytes) in order {
            let full = root.join(p);
            if let Some(parent) = full.parent() {
                std::fs::create_dir_all(parent)?;
            }
            std::fs::write(&full, bytes)?;
        }
        for (l, target) in &self.symlinks {
            let full = root.join(l);
            if let Some(parent) = full.parent() {
                std::fs::create_dir_all(parent)?;
            }
            std::os::unix::fs::symlink(target, &full)?;
        }
        if let Some(h) = &self.home {
            std::fs::create_dir_all(root.join(h))?;
        }
        if let Some(h) = &self.xdg {
            std::fs::create_dir_all(root.join(h))?;
        }
        if self.unpriv {
            use std::os::unix::fs::PermissionsExt;
            fn open_up(dir: &Path) -> std::io::Result<()> {
                std::fs::set_permissions(dir, std::fs::Permissions::from_mode(0o777))?;
                for e in std::fs::read_dir(dir)? {
                    let e = e?;
                    let md = std::fs::symlink_metadata(e.path())?;
                    if md.file_type().is_symlink() {
                        continue;
                    }
                    if md.is_dir() {
                        open_up(&e.path())?;
                    } else {
                        std::fs::set_permissions(e.path(), std::fs::Permissions::from_mode(0o666))?;
                    }
                }
                Ok(())
            }
            open_up(root)?;
            // deepest paths first, so that closing a directory does not get in the way
            let mut ms: Vec<(&String, &u32)> = self.modes.iter().collect();
            ms.sort_by_key(|(p, _)| std::cmp::Reverse(p.matches('/').count()));
            for (p, m) in ms {
                std::fs::set_permissions(root.join(p), std::fs::Permissions::from_mode(*m))?;
            }
        }
        Ok(())
    }

    pub fn mode_of(&self, p: &str) -> Option<u32> {
        if self.unpriv {
            self.modes.get(p).cloned()
        } else {
            None
        }
    }

    /// Overwrite / create exactly the files that differ from `have` (used between the
    /// invocations of a history when the tree must be reset).
    pub fn abs_cwd(&self, root: &Path) -> PathBuf {
        root.join(&self.cwd)
    }
}

pub fn snapshot(root: &Path) -> std::io::Result<Snapshot> {
    use std::os::unix::fs::MetadataExt;
    let mut s = Snapshot::default();
    fn walk(root: &Path, dir: &Path, s: &mut Snapshot) -> std::io::Result<()> {
        let mut entries: Vec<_> = std::fs::read_dir(dir)?.collect::<Result<Vec<_>, _>>()?;
        entries.sort_by_key(|e| e.file_name());
        for e in entries {
            let p = e.path();
            let rel = p.strip_prefix(root).unwrap().to_string_lossy().into_owned();
            let md = std::fs::symlink_metadata(&p)?;
            if md.file_type().is_symlink() {
                let t = std::fs::read_link(&p).map(|t| t.to_string_lossy().into_owned()).unwrap_or_default();
                s.links.insert(rel, t);
            } else if md.is_dir() {
                s.dirs.push(rel);
                walk(root, &p, s)?;
            } else {
                let bytes = std::fs::read(&p).unwrap_or_default();
                s.files.insert(
                    rel,
                    FileState {
                        bytes,
                        mtime_ns: md.mtime() as i128 * 1_000_000_000 + md.mtime_nsec() as i128,
                        ino: md.ino(),
                    },
                );
            }
        }
        Ok(())
    }
    walk(root, root, &mut s)?;
    Ok(s)
}

/// Lexically normalise `rel` (relative to `cwd`, itself relative to the world root) into a
/// world-relative path.  Returns None if it escapes the root.
pub fn world_rel(cwd: &str, rel: &str) -> Option<String> {
    let mut parts: Vec<&str> = cwd.split('/').filter(|s| !s.is_empty()).collect();
    if rel.starts_with('/') {
        return None;
    }
    for c in rel.split('/') {
        match c {
            "" | "." => {}
            ".." => {
                parts.pop()?;
            }
            x => parts.push(x),
        }
    }
    Some(parts.join("/"))
}
