//! W-carrier (C20): a finite sweep option × documented value × carrier (clause 1), and malformed
//! configuration carriers (clause 2).
use crate::gen::{self, CWD, PROBE, SYNTAX_PROBES};
use crate::model;
use crate::rng::Rng;
use crate::world::{Case, Invocation, Opts, World};
use stylua_lib::Config;

#[derive(Clone, Debug)]
pub struct SweepEntry {
    pub option: String,
    pub value: String,
    /// toml | dot-toml | flag | flag-lower | flag-upper | flag-mixed | editorconfig | editorconfig-lower
    pub carrier: String,
    /// for editorconfig carriers: the lines of the `[*.lua]` section
    pub ec_lines: Vec<String>,
}

pub fn sweep() -> Vec<SweepEntry> {
    let mut out = Vec::new();
    let mut push = |o: &str, v: &str, c: &str, ec: Vec<String>| {
        out.push(SweepEntry { option: o.into(), value: v.into(), carrier: c.into(), ec_lines: ec })
    };
    for (opt, vals) in model::ENUM_OPTIONS {
        for v in *vals {
            for c in ["toml", "flag", "flag-lower", "flag-upper", "flag-mixed"] {
                push(opt, v, c, vec![]);
            }
        }
        push(opt, vals[vals.len() - 1], "dot-toml", vec![]);
    }
    for w in gen::COLUMN_WIDTHS {
        push("column_width", &w.to_string(), "toml", vec![]);
        push("column_width", &w.to_string(), "flag", vec![]);
        push("column_width", &w.to_string(), "editorconfig", vec![format!("max_line_length = {w}")]);
    }
    for w in gen::INDENT_WIDTHS {
        push("indent_width", &w.to_string(), "toml", vec![]);
        push("indent_width", &w.to_string(), "flag", vec![]);
        push("indent_width", &w.to_string(), "editorconfig", vec![format!("indent_size = {w}")]);
        push("indent_width", &w.to_string(), "editorconfig", vec!["indent_size = tab".into(), format!("tab_width = {w}")]);
    }
    // `tab_width` only matters when `indent_size = tab`
    push("indent_width", "2", "editorconfig", vec!["indent_style = tab".into(), "indent_size = 2".into(), "tab_width = 8".into()]);
    push("indent_width", "8", "editorconfig", vec!["indent_size = 8".into(), "tab_width = 2".into()]);
    for v in ["true", "false"] {
        push("sort_requires", v, "toml", vec![]);
        push("sort_requires", v, "editorconfig", vec![format!("sort_requires = {v}")]);
    }
    push("sort_requires", "true", "flag", vec![]);
    // editorconfig keys with their own vocabulary
    push("indent_type", "Tabs", "editorconfig", vec!["indent_style = tab".into()]);
    push("indent_type", "Spaces", "editorconfig", vec!["indent_style = space".into()]);
    push("line_endings", "Unix", "editorconfig", vec!["end_of_line = lf".into()]);
    push("line_endings", "Unix", "editorconfig", vec!["end_of_line = cr".into()]);
    push("line_endings", "Windows", "editorconfig", vec!["end_of_line = crlf".into()]);
    push("quote_style", "AutoPreferDouble", "editorconfig", vec!["quote_type = double".into()]);
    push("quote_style", "AutoPreferSingle", "editorconfig", vec!["quote_type = single".into()]);
    // editorconfig keys named after the option
    for (opt, vals) in [
        ("call_parentheses", &model::CALL_PARENS[..4]),
        ("space_after_function_names", model::SPACE_AFTER),
        ("collapse_simple_statement", model::COLLAPSE),
    ] {
        for v in vals {
            push(opt, v, "editorconfig", vec![format!("{opt} = {v}")]);
            push(opt, v, "editorconfig-lower", vec![format!("{opt} = {}", v.to_lowercase())]);
        }
    }
    out
}

pub fn intended_config(e: &SweepEntry) -> Config {
    let mut c = Config::default();
    model::apply_option(&mut c, &e.option, &e.value, true).expect("sweep entry must be valid");
    c
}

fn base_world() -> World {
    let mut w = World { cwd: CWD.into(), ..Default::default() };
    w.files.insert(".editorconfig".into(), b"root = true\n".to_vec());
    w
}

pub fn sweep_case(e: &SweepEntry, rng: &mut Rng) -> Case {
    let mut w = base_world();
    w.files.insert(format!("{CWD}/p.lua"), PROBE.as_bytes().to_vec());
    w.files.insert(format!("{CWD}/sub/q.lua"), PROBE.as_bytes().to_vec());
    if e.option == "syntax" {
        for (n, src) in SYNTAX_PROBES {
            w.files.insert(format!("{CWD}/syn/{n}"), src.as_bytes().to_vec());
        }
    }
    let mut opts = Opts { num_threads: gen::random_threads(rng), files: vec![".".into()], ..Default::default() };
    let kv = vec![(e.option.clone(), e.value.clone())];
    match e.carrier.as_str() {
        "toml" => {
            w.files.insert(format!("{CWD}/stylua.toml"), gen::toml_text(&kv).into_bytes());
        }
        "dot-toml" => {
            w.files.insert(format!("{CWD}/.stylua.toml"), gen::toml_text(&kv).into_bytes());
        }
        "flag" => opts.overrides = kv,
        "flag-lower" => opts.overrides = vec![(e.option.clone(), e.value.to_lowercase())],
        "flag-upper" => opts.overrides = vec![(e.option.clone(), e.value.to_uppercase())],
        "flag-mixed" => {
            let v: String = e
                .value
                .chars()
                .enumerate()
                .map(|(i, c)| if i % 2 == 0 { c.to_ascii_lowercase() } else { c.to_ascii_uppercase() })
                .collect();
            opts.overrides = vec![(e.option.clone(), v)]
        }
        _ => {
            let text = format!("[*.lua]\n{}\n", e.ec_lines.join("\n"));
            w.files.insert(format!("{CWD}/.editorconfig"), text.into_bytes());
        }
    }
    // target: the directory, explicit files, or stdin (with / without a file path)
    let mut stdin = None;
    match rng.below(10) {
        0..=4 => {}
        5..=6 => opts.files = vec!["p.lua".into(), "sub/q.lua".into()],
        7 => {
            opts.files = vec!["-".into()];
            stdin = Some(PROBE.as_bytes().to_vec());
        }
        8 => {
            opts.files = vec!["-".into()];
            opts.stdin_filepath = Some("sub/q.lua".into());
            stdin = Some(PROBE.as_bytes().to_vec());
        }
        _ => {
            opts.files = vec!["-".into()];
            opts.no_editorconfig = !e.carrier.starts_with("editorconfig");
            stdin = Some(PROBE.as_bytes().to_vec());
        }
    }
    let inv = Invocation { opts, stdin, faults: vec![], sched: gen::random_sched(rng), dir_key: rng.next(), pre_edits: vec![] };
    Case { family: format!("carrier-sweep:{}={}@{}", e.option, e.value, e.carrier), world: w, invs: vec![inv] }
}

/// Clause 2: a malformed carrier must be rejected with status 2 and no file modified.
pub fn malformed_case(rng: &mut Rng) -> Case {
    let mut w = base_world();
    let n = rng.range(2, 6);
    let dirs = ["", "sub", "sub/deep", "lib"];
    let mut placed = 0;
    let mut tries = 0;
    while placed < n && tries < 50 {
        tries += 1;
        let d = rng.pick(&dirs);
        let name = rng.pick(&["a.lua", "b.lua", "c.lua", "d.lua"]);
        let p = if d.is_empty() { format!("{CWD}/{name}") } else { format!("{CWD}/{d}/{name}") };
        if w.files.contains_key(&p) {
            continue;
        }
        w.files.insert(p, rng.pick(gen::UNFORMATTED).as_bytes().to_vec());
        placed += 1;
    }
    let mut opts = Opts { num_threads: gen::random_threads(rng), files: vec![".".into()], ..Default::default() };
    opts.check = rng.chance(20);
    let (text, kind) = gen::malformed_toml(rng);
    let mut family = format!("carrier-malformed:{kind}");
    match rng.below(10) {
        0..=3 => {
            // governs every target
            let name = if rng.chance(70) { "stylua.toml" } else { ".stylua.toml" };
            w.files.insert(format!("{CWD}/{name}"), text.into_bytes());
            family.push_str("@cwd");
        }
        4..=5 => {
            w.files.insert("outer/bad.toml".into(), text.into_bytes());
            opts.config_path = Some("../bad.toml".into());
            family.push_str("@config-path");
        }
        6 => {
            // a malformed user-level configuration, reached with --search-parent-directories
            opts.search_parents = true;
            if rng.chance(50) {
                w.xdg = Some("xdg".into());
                let d = if rng.chance(50) { "xdg" } else { "xdg/stylua" };
                w.files.insert(format!("{d}/stylua.toml"), text.into_bytes());
            } else {
                w.home = Some("home".into());
                let d = if rng.chance(50) { "home/.config" } else { "home/.config/stylua" };
                w.files.insert(format!("{d}/.stylua.toml"), text.into_bytes());
            }
            family.push_str("@user-level");
        }
        7 if !opts.check => {
            // the .editorconfig carrier: a line that is not `key = value` makes the file malformed
            let bad = rng.pick(&["[*]\nindent_size\n", "[*]\nindent_style = space\nindent_size =\n", "[*]\n= 3\n"]);
            let d = rng.pick(&["", "sub", "lib"]);
            let p = if d.is_empty() { format!("{CWD}/.editorconfig") } else { format!("{CWD}/{d}/.editorconfig") };
            w.files.insert(p, bad.as_bytes().to_vec());
            family = format!("carrier-malformed:editorconfig-invalid-line@{}", if d.is_empty() { "cwd" } else { "nested" });
        }
        7..=8 => {
            let d = rng.pick(&["sub", "sub/deep", "lib"]);
            w.files.insert(format!("{CWD}/{d}/stylua.toml"), text.into_bytes());
            // a good config at the top so that the other files have something to be formatted by
            if rng.chance(50) {
                let o = gen::random_option_set(rng, 2);
                w.files.insert(format!("{CWD}/stylua.toml"), gen::toml_text(&o).into_bytes());
            }
            family.push_str("@nested");
        }
        _ => {
            // the flag carrier: a value the flag parser must reject
            let bad = rng.pick(&[("quote_style", "ForceTriple"), ("column_width", "wide"), ("indent_type", "Tab"), ("syntax", "Lua55")]);
            opts.overrides = vec![(bad.0.to_string(), bad.1.to_string())];
            family = format!("carrier-malformed:bad-flag-value-{}@flag", bad.0);
        }
    }
    let inv = Invocation { opts, stdin: None, faults: vec![], sched: gen::random_sched(rng), dir_key: rng.next(), pre_edits: vec![] };
    Case { family, world: w, invs: vec![inv] }
}

pub fn gen_carrier(rng: &mut Rng) -> Case {
    if rng.chance(45) {
        malformed_case(rng)
    } else {
        let s = sweep();
        let e = rng.pick(&s).clone();
        let mut case = sweep_case(&e, rng);
        if rng.chance(35) {
            place_elsewhere(&mut case, &e, rng);
        }
        case
    }
}

/// "Wherever it is written" also means wherever the file lies: with `--search-parent-directories`
/// the `stylua.toml` carrier moves to the parent of the working directory or to one of the four
/// XDG/HOME locations, and the flag carrier meets a `stylua.toml` there that sets some *other*
/// option (the flag must still be applied on top of it).  Random phase only; the complete sweep
/// and its self-check keep the plain worlds.
fn place_elsewhere(case: &mut Case, e: &SweepEntry, rng: &mut Rng) {
    if e.carrier.starts_with("editorconfig") {
        return;
    }
    let spots: &[&str] = &["outer", "xdg", "xdg/stylua", "home/.config", "home/.config/stylua"];
    let spot: &str = rng.pick(spots);
    let w = &mut case.world;
    if spot.starts_with("xdg") {
        w.xdg = Some("xdg".into());
    } else if spot.starts_with("home") {
        w.home = Some("home".into());
    }
    match e.carrier.as_str() {
        "toml" | "dot-toml" => {
            let name = if e.carrier == "toml" { "stylua.toml" } else { ".stylua.toml" };
            if let Some(bytes) = w.files.remove(&format!("{CWD}/{name}")) {
                w.files.insert(format!("{spot}/{name}"), bytes);
            }
        }
        _ => {
            let decoy = if e.option == "column_width" { ("indent_width", "3") } else { ("column_width", "77") };
            let kv = vec![(decoy.0.to_string(), decoy.1.to_string())];
            w.files.insert(format!("{spot}/stylua.toml"), gen::toml_text(&kv).into_bytes());
        }
    }
    case.invs[0].opts.search_parents = true;
    case.family = format!("{}+placed:{spot}", case.family);
}

/// Self-checks of the sweep (harness errors, not violations, if they fail):
///  * the model resolves every sweep world to the intended Config;
///  * the probe program is sensitive: for every option, the formatted probe differs pairwise
///    between the documented values (for `syntax`: the accept/reject signature differs).
pub fn selfcheck() -> Result<(usize, Vec<String>), String> {
    let mut insensitive = Vec::new();
    let none = std::collections::BTreeSet::new();
    let s = sweep();
    let mut rng = Rng::new(1);
    for e in &s {
        let case = sweep_case(e, &mut rng);
        let r = model::resolve_config(&case.world, &case.invs[0].opts, CWD, "p.lua", &none);
        let got = r.config.map_err(|er| format!("sweep entry {:?} rejected by the model: {er}", e))?;
        let want = intended_config(e);
        if format!("{:?}", got) != format!("{:?}", want) {
            return Err(format!("model resolves {:?} to {:?}, intended {:?}", e, got, want));
        }
    }
    let opts = Opts::default();
    let fmt = |cfg: Config, src: &str| format!("{:?}", model::format_with(cfg, src.as_bytes(), &opts));
    let mut all: Vec<(&str, Vec<String>)> = model::ENUM_OPTIONS.iter().map(|(k, v)| (*k, v.iter().map(|x| x.to_string()).collect())).collect();
    all.push(("column_width", gen::COLUMN_WIDTHS.iter().map(|x| x.to_string()).collect()));
    all.push(("indent_width", gen::INDENT_WIDTHS.iter().map(|x| x.to_string()).collect()));
    all.push(("sort_requires", vec!["true".into(), "false".into()]));
    for (k, vals) in &all {
        let mut outs: Vec<(String, String)> = Vec::new();
        for v in vals {
            let mut c = Config::default();
            model::apply_option(&mut c, k, v, true)?;
            let sig = if *k == "syntax" {
                SYNTAX_PROBES.iter().map(|(_, src)| fmt(c, src)).collect::<Vec<_>>().join("|")
            } else {
                fmt(c, PROBE)
            };
            outs.push((v.clone(), sig));
        }
        for i in 0..outs.len() {
            for j in (i + 1)..outs.len() {
                if outs[i].1 == outs[j].1 {
                    insensitive.push(format!("{k}: {} ~ {}", outs[i].0, outs[j].0));
                }
            }
        }
    }
    Ok((s.len(), insensitive))
}
