//! Workload generators: one family per property.  Everything is drawn from the case's Rng.
use crate::model::{self, FileExpect};
use crate::rng::Rng;
use crate::world::{Case, Invocation, Opts, World};
use simplan::{Fault, Sched};
use std::collections::BTreeSet;

pub const CWD: &str = "outer/proj";

/// Set once at start-up: the thorough tier draws larger worlds.
pub static THOROUGH: std::sync::atomic::AtomicBool = std::sync::atomic::AtomicBool::new(false);

fn max_files(quick: u64, thorough: u64) -> u64 {
    if THOROUGH.load(std::sync::atomic::Ordering::Relaxed) {
        thorough
    } else {
        quick
    }
}

// ---------------------------------------------------------------------------------------------
// source pool

pub const UNFORMATTED: &[&str] = &[
    "local   x   =    1\n",
    "local t = {1,2,  3}\nprint( t )\n",
    "function  foo( a,b )\n  return a+b\nend\n",
    "if x then y() else z() end\n",
    "for i=1,10 do print(i) end\n",
    "local s = 'single'\nlocal d = \"double\"\n",
    "while  true do\n\tbreak\nend\n",
    "local function f(...) return ... end\nf( 1 , 2 )\n",
    "local a = {\n  b = 1,\n    c = 2\n}\n",
    "x = x or {}\nx.y = function() end\n",
    "do local a = 1; local b = 2 end\n",
    "return   {a=1,b=2}\n",
    "-- comment\nlocal   z = 3 -- trailing\n",
    "call  'str'\ncall2 {1}\n",
    "local  a = 1\r\nlocal b   = 2\r\n",
    "local  q = 1",
    "local b = require('b')\nlocal a = require('a')\nprint(a,b)\n",
    "local long = call(aaaaaaaaaaaa, bbbbbbbbbbbbb, cccccccccccc, dddddddddddd, eeeeeeeeeee, ffffffffff)\n",
    "repeat x = x + 1 until x > 10\n",
    "local m = { [1] = 'a', [\"k\"] = 'b' }\n",
    "",
    "\n\n\n",
    "local   t = 1\n\n\n\n",
    // multi-byte characters (early in the text: short reads split them)
    "-- ✓✓ é ü 漢字\nlocal   s = \"héllo wörld ✓\"\n",
    "local   t = { \"日本語\",  'ключ' }\n",
    // formatted except for the line terminators / the final newline
    "local a = 1\r\nlocal b = 2\r\n",
    "local q = 1",
    "local a = 1\nlocal b = 2\r\n",
];

pub const UNPARSEABLE: &[&str] =
    &["local = = 1\n", "x = = 2\n", "function end end\n", "if then\n", "return return\n", "\u{feff}local bom = 1\n"];

/// Formatted text differs for every value of every option (self-checked by `probe_selfcheck`).
pub const PROBE: &str = "local b = require(\"b\")\nlocal a = require(\"a\")\nlocal s1 = \"plain\"\nlocal s2 = 'has\"dq'\nlocal s3 = \"has'sq\"\nf(\"x\")\ng({ 1 })\nh \"y\"\nk { 2 }\nfunction foo(p)\n\tif p then\n\t\treturn\n\tend\n\tlocal r = bar(p)\n\tdo\n\t\tlocal w115 = call(aaaaaaaaaaaaaaaaaaaaaaaaaaaaaaaaaaaaaaaaaaaaaaa, bbbbbbbbbbbbbbbbbbbbbbbbbbbbbbbbbbbbbbbbbbbbbbb)\n\t\tlocal w113 = call(aaaaaaaaaaaaaaaaaaaaaaaaaaaaaaaaaaaaaaaaaaaaaa, bbbbbbbbbbbbbbbbbbbbbbbbbbbbbbbbbbbbbbbbbbbbbb)\n\t\tlocal w108 = call(aaaaaaaaaaaaaaaaaaaaaaaaaaaaaaaaaaaaaaaaaaa, bbbbbbbbbbbbbbbbbbbbbbbbbbbbbbbbbbbbbbbbbbbb)\n\tend\n\treturn function()\n\t\treturn r\n\tend\nend\nlocal l30 = call(aaaaaa, bbbbbb, cccc)\nlocal l50 = call(aaaaaaaaaa, bbbbbbbbbb, cccccccccc, ddd)\nlocal l70 = call(aaaaaaaaaaaaaa, bbbbbbbbbbbbbb, cccccccccccccc, dddddddddd)\nlocal l90 = call(aaaaaaaaaaaaaaaaaaa, bbbbbbbbbbbbbbbbbbb, ccccccccccccccccccc, ddddddddddddddd)\nlocal l110 = call(aaaaaaaaaaaaaaaaaaaaaaaa, bbbbbbbbbbbbbbbbbbbbbbbb, cccccccccccccccccccccccc, dddddddddddddddddddd)\nlocal l135 = call(aaaaaaaaaaaaaaaaaaaaaaaaaaaaaa, bbbbbbbbbbbbbbbbbbbbbbbbbbbbbb, cccccccccccccccccccccccccccccc, ddddddddddddddddddddddddddd)\n";

/// One source per syntax feature; which of them parse is the observable signature of `syntax`.
pub const SYNTAX_PROBES: &[(&str, &str)] = &[
    ("luau.lua", "local   x: number = 1\n"),
    ("goto.lua", "goto  done\n::done::\n"),
    ("idiv.lua", "local   y = 7 // 2\n"),
    ("attrib.lua", "local   z <const> = 5\n"),
    ("jit.lua", "local   n = 1LL\n"),
    ("plain.lua", "local   p = 1\n"),
];

pub const COLUMN_WIDTHS: &[u64] = &[40, 60, 80, 100, 120, 150];
pub const INDENT_WIDTHS: &[u64] = &[2, 3, 4, 8];

// ---------------------------------------------------------------------------------------------
// configuration text

pub fn random_option(rng: &mut Rng) -> (String, String) {
    let n = model::ENUM_OPTIONS.len() as u64 + 3;
    let i = rng.below(n) as usize;
    if i < model::ENUM_OPTIONS.len() {
        let (k, vals) = model::ENUM_OPTIONS[i];
        if k == "syntax" {
            // keep to syntaxes that accept the whole pool, so that `syntax` does not turn
            // formatted files into parse errors behind the generator's back
            return (k.to_string(), rng.pick(&["All", "Lua51", "Lua54", "Luau"]).to_string());
        }
        (k.to_string(), rng.pick(vals).to_string())
    } else if i == model::ENUM_OPTIONS.len() {
        ("column_width".into(), rng.pick(COLUMN_WIDTHS).to_string())
    } else if i == model::ENUM_OPTIONS.len() + 1 {
        ("indent_width".into(), rng.pick(INDENT_WIDTHS).to_string())
    } else {
        ("sort_requires".into(), if rng.chance(70) { "true" } else { "false" }.to_string())
    }
}

pub fn random_option_set(rng: &mut Rng, max: u64) -> Vec<(String, String)> {
    let n = rng.range(1, max);
    let mut out: Vec<(String, String)> = Vec::new();
    for _ in 0..n {
        let (k, v) = random_option(rng);
        if !out.iter().any(|(k2, _)| *k2 == k) {
            out.push((k, v));
        }
    }
    out
}

pub fn toml_text(opts: &[(String, String)]) -> String {
    let mut s = String::new();
    let mut sort = None;
    for (k, v) in opts {
        if k == "sort_requires" {
            sort = Some(v.clone());
        } else if model::INT_OPTIONS.contains(&k.as_str()) || k == "no_call_parentheses" {
            s.push_str(&format!("{k} = {v}\n"));
        } else {
            s.push_str(&format!("{k} = \"{v}\"\n"));
        }
    }
    if let Some(v) = sort {
        s.push_str(&format!("\n[sort_requires]\nenabled = {v}\n"));
    }
    s
}

/// A malformed stylua.toml: misspelt key, wrong value type, unknown table, bad enum value.
pub fn malformed_toml(rng: &mut Rng) -> (String, &'static str) {
    match rng.below(10) {
        0 => ("colum_width = 80\n".into(), "misspelt-key"),
        1 => ("column_width = \"wide\"\n".into(), "wrong-type-string-for-int"),
        2 => ("quote_style = 3\n".into(), "wrong-type-int-for-enum"),
        3 => ("indent_type = \"Tabs\"\n\n[formatting]\nfoo = 1\n".into(), "unknown-table"),
        4 => ("quote_style = \"ForceTriple\"\n".into(), "bad-enum-value"),
        5 => ("indent_type = \"tabs\"\n".into(), "wrong-case-enum-value"),
        6 => ("[sort_requires]\nenable = true\n".into(), "misspelt-key-in-sort-requires-table"),
        7 => ("[sort_requires]\nenabled = true\nextra = 1\n".into(), "unknown-key-in-sort-requires-table"),
        8 => ("[sort_requires]\nenabled = \"yes\"\n".into(), "wrong-type-in-sort-requires-table"),
        _ => ("column_width = 100\n\n[sort_requires.nested]\nx = 1\n".into(), "unknown-subtable"),
    }
}

pub fn editorconfig_text(rng: &mut Rng) -> String {
    let mut s = String::new();
    let sections: &[&str] = match rng.below(10) {
        0..=3 => &["*.lua"],
        4..=5 => &["*"],
        6 => &["*", "*.lua"],
        7 => &["*.lua", "p0.lua"],
        8 => &["p1.lua", "*.luau"],
        _ => &["*", "p0.lua", "p1.lua"],
    };
    for sec in sections {
        s.push_str(&format!("[{sec}]\n"));
        let n = rng.range(1, 3);
        let mut used = BTreeSet::new();
        for _ in 0..n {
            let (k, v): (&str, String) = match rng.below(10) {
                0 => ("indent_style", rng.pick(&["tab", "space"]).to_string()),
                1 => ("indent_size", rng.pick(INDENT_WIDTHS).to_string()),
                2 => ("max_line_length", rng.pick(COLUMN_WIDTHS).to_string()),
                3 => ("end_of_line", rng.pick(&["lf", "crlf"]).to_string()),
                4 => ("quote_type", rng.pick(&["double", "single"]).to_string()),
                5 => ("call_parentheses", rng.pick(&["Always", "NoSingleString", "NoSingleTable", "None"]).to_string()),
                6 => ("space_after_function_names", rng.pick(&["Always", "Definitions", "Calls", "Never"]).to_string()),
                7 => ("collapse_simple_statement", rng.pick(&["Never", "FunctionOnly", "ConditionalOnly", "Always"]).to_string()),
                8 => ("tab_width", rng.pick(INDENT_WIDTHS).to_string()),
                _ => ("sort_requires", rng.pick(&["true", "false"]).to_string()),
            };
            if used.insert(k) {
                s.push_str(&format!("{k} = {v}\n"));
            }
        }
        s.push('\n');
    }
    s
}

// ---------------------------------------------------------------------------------------------
// schedules

pub fn random_sched(rng: &mut Rng) -> Sched {
    let strategy = rng.pick_weighted(&[("uniform", 20), ("sticky", 18), ("pct", 14), ("starve", 14), ("conflict", 20), ("delay", 14)]);
    Sched {
        strategy: strategy.to_string(),
        target: if strategy == "delay" {
            rng.pick(&[
                "atomic.i32",
                "atomic.usize",
                "atomic.u32",
                "chan.send",
                "chan.recv",
                "fs.write.open",
                "fs.write.data",
                "fs.write.close",
                "fs.read",
                "lib.format_code",
                "mutex.lock",
                "condvar",
                "thread.spawn",
                "thread.finish",
                "stdout",
            ])
            .to_string()
        } else {
            String::new()
        },
        seed: rng.next(),
        p: match strategy {
            "sticky" => rng.pick(&[50, 80, 95]),
            "starve" => rng.pick(&[2, 10, 30]),
            "delay" => rng.pick(&[0, 5, 20]),
            _ => 50,
        },
        d: rng.range(1, 3) as u32,
        victim: rng.below(6) as u32,
        overrides: vec![],
        wake_overrides: vec![],
    }
}

pub fn random_threads(rng: &mut Rng) -> usize {
    if rng.chance(35) {
        return rng.range(1, 16) as usize;
    }
    rng.pick_weighted(&[(1usize, 15), (2, 20), (3, 20), (4, 15), (6, 8), (8, 8), (12, 6), (16, 8)])
}

/// The world C19's quantifier names: a missing path, an unparseable file and an unformatted
/// file (plus optionally a formatted one), as explicit arguments in a random order.
pub fn gen_c19_canonical(rng: &mut Rng) -> Case {
    let mut w = base_world();
    w.files.insert(wpath("", "bad.lua"), rng.pick(UNPARSEABLE).as_bytes().to_vec());
    w.files.insert(wpath("", "ugly.lua"), rng.pick(UNFORMATTED).as_bytes().to_vec());
    let mut args: Vec<String> = vec!["bad.lua".into(), "ugly.lua".into(), "missing.lua".into()];
    if rng.chance(50) {
        w.files.insert(wpath("sub", "ugly2.lua"), rng.pick(UNFORMATTED).as_bytes().to_vec());
        args.push("sub".into());
    }
    if rng.chance(30) {
        w.files.insert(wpath("", "fine.lua"), b"local fine = 1\n".to_vec());
        args.push("fine.lua".into());
    }
    rng.shuffle(&mut args);
    let mut opts = Opts { check: rng.chance(70), num_threads: random_threads(rng), files: args, ..Default::default() };
    if opts.check {
        opts.output_format = rng.pick(&[None, Some("unified"), Some("json"), Some("summary")]).map(|s| s.to_string());
    }
    let inv = Invocation { opts, stdin: None, faults: vec![], sched: random_sched(rng), dir_key: rng.next(), pre_edits: vec![] };
    Case { family: "c19-canonical".into(), world: w, invs: vec![inv] }
}

/// One file named under several spellings that resolve to *different* configurations
/// (`sub/../x.lua` is looked up from `sub/`, `x.lua` from the working directory).  Which spelling
/// should win is outside the model (§5.1), and C19 does not ask: whatever the program does, it
/// must do under every schedule and thread count.  The file walk is sequential, so on a correct
/// tree the first spelling on the command line decides, always.
pub fn gen_c19_spellings(rng: &mut Rng) -> Case {
    let mut w = base_world();
    w.files.insert(wpath("", "x.lua"), PROBE.as_bytes().to_vec());
    let o = random_option_set(rng, 3);
    w.files.insert(wpath("sub", "stylua.toml"), toml_text(&o).into_bytes());
    w.files.insert(wpath("sub", "keep.lua"), b"local keep = 1\n".to_vec());
    if rng.chance(40) {
        let o = random_option_set(rng, 2);
        w.files.insert(wpath("lib", ".stylua.toml"), toml_text(&o).into_bytes());
        w.files.insert(wpath("lib", "keep.lua"), b"local keep = 1\n".to_vec());
    }
    let spellings: &[&str] = &["x.lua", "./x.lua", "sub/../x.lua", "lib/../x.lua", "sub/../sub/../x.lua", "./sub/../x.lua"];
    let mut args: Vec<String> = Vec::new();
    let n = rng.range(2, 4);
    while (args.len() as u64) < n {
        let s: &str = rng.pick(spellings);
        if !args.iter().any(|a| a == s) {
            args.push(s.to_string());
        }
    }
    if rng.chance(40) {
        w.files.insert(wpath("", "ugly.lua"), rng.pick(UNFORMATTED).as_bytes().to_vec());
        args.push("ugly.lua".into());
    }
    if rng.chance(25) {
        args.push("missing.lua".into());
    }
    rng.shuffle(&mut args);
    let mut opts = Opts { check: rng.chance(25), num_threads: random_threads(rng), files: args, ..Default::default() };
    if opts.check {
        opts.output_format = rng.pick(&[None, Some("unified"), Some("json"), Some("summary")]).map(|s| s.to_string());
    }
    let inv = Invocation { opts, stdin: None, faults: vec![], sched: random_sched(rng), dir_key: rng.next(), pre_edits: vec![] };
    Case { family: "c19-spellings".into(), world: w, invs: vec![inv] }
}

// ---------------------------------------------------------------------------------------------
// file classes

#[derive(Clone, Copy, Debug, PartialEq)]
pub enum Class {
    Formatted,
    Unformatted,
    Unparseable,
    NonUtf8,
    Probe,
}

pub fn class_bytes(rng: &mut Rng, c: Class) -> Vec<u8> {
    match c {
        Class::Formatted | Class::Unformatted => rng.pick(UNFORMATTED).as_bytes().to_vec(),
        Class::Unparseable => rng.pick(UNPARSEABLE).as_bytes().to_vec(),
        Class::NonUtf8 => b"local x = 1\n\xff\xfe\n".to_vec(),
        Class::Probe => PROBE.as_bytes().to_vec(),
    }
}

/// Replace the bytes of every file in `formatted` by its formatted text under the
/// configuration the model resolves for it (if formatting is idempotent on it).
pub fn finalise_formatted(world: &mut World, opts: &Opts, formatted: &[String]) {
    let none = BTreeSet::new();
    for f in formatted {
        let dir = f.rsplit_once('/').map(|x| x.0.to_string()).unwrap_or_default();
        let name = f.rsplit('/').next().unwrap();
        if let Ok(cfg) = model::resolve_config(world, opts, &dir, name, &none).config {
            if let FileExpect::Changed(out) = model::format_with(cfg, &world.files[f], opts) {
                if model::format_with(cfg, &out, opts) == FileExpect::Same {
                    world.files.insert(f.clone(), out);
                }
            }
        }
    }
}

fn base_world() -> World {
    let mut w = World { cwd: CWD.into(), ..Default::default() };
    w.files.insert(".editorconfig".into(), b"root = true\n".to_vec());
    w
}

const DIRS: &[&str] = &["", "sub", "sub/deep", "lib"];
const NAMES: &[&str] = &["a.lua", "b.lua", "c.lua", "d.lua", "m.lua", "m.luau"];

fn wpath(dir: &str, name: &str) -> String {
    if dir.is_empty() {
        format!("{CWD}/{name}")
    } else {
        format!("{CWD}/{dir}/{name}")
    }
}

fn rel_to_cwd(wp: &str) -> String {
    wp.strip_prefix(&format!("{CWD}/")).unwrap_or(wp).to_string()
}

/// Random Lua files under the working directory; returns (world-path, class).
fn populate(rng: &mut Rng, w: &mut World, nfiles: u64, classes: &[(Class, u64)]) -> Vec<(String, Class)> {
    let mut out = Vec::new();
    let mut tries = 0;
    while (out.len() as u64) < nfiles && tries < 100 {
        tries += 1;
        let p = wpath(rng.pick(DIRS), rng.pick(NAMES));
        if w.files.contains_key(&p) {
            continue;
        }
        let c = rng.pick_weighted(classes);
        w.files.insert(p.clone(), class_bytes(rng, c));
        out.push((p, c));
    }
    out
}

/// Non-overlapping argument list covering (most of) the tree: either `.`, or a mix of
/// top-level directories and explicit files.
fn simple_args(rng: &mut Rng, files: &[(String, Class)]) -> Vec<String> {
    if rng.chance(40) {
        return vec![".".into()];
    }
    let mut args: Vec<String> = Vec::new();
    let mut covered_dirs: BTreeSet<String> = BTreeSet::new();
    for (p, _) in files {
        let rel = rel_to_cwd(p);
        let top = rel.split('/').next().unwrap().to_string();
        if rel.contains('/') {
            if covered_dirs.contains(&top) {
                continue;
            }
            if rng.chance(60) {
                covered_dirs.insert(top.clone());
                args.push(top);
                continue;
            }
            // explicit file inside a directory we do not pass as a whole
            if files.iter().filter(|(q, _)| rel_to_cwd(q).starts_with(&format!("{top}/"))).count() == 1 || rng.chance(50) {
                // make sure no later directory argument covers it
                covered_dirs.insert(format!("!{top}"));
            }
            if !covered_dirs.contains(&top) {
                args.push(rel);
            }
        } else if rng.chance(85) {
            args.push(if rng.chance(20) { format!("./{rel}") } else { rel });
        }
    }
    // drop explicit files lying under a directory argument
    let dirs: Vec<String> = args.iter().filter(|a| !a.ends_with(".lua") && !a.ends_with(".luau")).cloned().collect();
    args.retain(|a| !dirs.iter().any(|d| a.starts_with(&format!("{d}/"))));
    if args.is_empty() {
        args.push(".".into());
    }
    rng.shuffle(&mut args);
    args
}

fn add_missing_args(rng: &mut Rng, args: &mut Vec<String>) {
    let n = rng.pick_weighted(&[(0u64, 50), (1, 40), (2, 10)]);
    for i in 0..n {
        let pos = rng.below(args.len() as u64 + 1) as usize;
        args.insert(pos, format!("missing{i}.lua"));
    }
}

fn fault(site: &str, wp: &str, kind: &str) -> Fault {
    Fault { site: site.into(), path: format!("$W/{wp}"), nth: 0, kind: kind.into(), arg: 0 }
}

fn maybe_cwd_config(rng: &mut Rng, w: &mut World) {
    if rng.chance(35) {
        let name = if rng.chance(70) { "stylua.toml" } else { ".stylua.toml" };
        let mut o = random_option_set(rng, 3);
        if rng.chance(8) {
            o.push(("no_call_parentheses".into(), "true".into()));
        }
        w.files.insert(format!("{CWD}/{name}"), toml_text(&o).into_bytes());
    }
}

/// Natural permission faults: the CLI runs as an unprivileged user and some selected files are
/// read-only (0444) or unreadable (0200), or a leaf directory cannot be read (0000).  These reach
/// the program through the real OS, whatever API it uses.
fn add_permission_faults(rng: &mut Rng, w: &mut World, opts: &Opts) {
    w.unpriv = true;
    let sel = model::select(w, opts);
    let cands: Vec<String> = sel.selected.iter().cloned().collect();
    if cands.is_empty() {
        return;
    }
    let n = rng.range(1, 2);
    for _ in 0..n {
        let f: String = rng.pick(&cands);
        match rng.below(10) {
            0..=4 => {
                w.modes.insert(f, 0o444);
            }
            5..=7 => {
                w.modes.insert(f, 0o200);
            }
            _ => {
                // a leaf directory below the working directory that holds only Lua files and is
                // not itself named on the command line
                if let Some((dir, _)) = f.rsplit_once('/') {
                    let dir = dir.to_string();
                    let is_arg = opts.files.iter().any(|a| crate::world::world_rel(&w.cwd, a).as_deref() == Some(&dir));
                    let only_lua = w.files.keys().filter(|k| k.starts_with(&format!("{dir}/"))).all(|k| {
                        !k[dir.len() + 1..].contains('/') && (k.ends_with(".lua") || k.ends_with(".luau"))
                    });
                    let explicit_inside = opts.files.iter().any(|a| {
                        crate::world::world_rel(&w.cwd, a).map(|p| p.starts_with(&format!("{dir}/"))).unwrap_or(false)
                    });
                    if dir != w.cwd && !is_arg && only_lua && !explicit_inside {
                        w.modes.insert(dir, 0o000);
                    }
                }
            }
        }
    }
}

// ---------------------------------------------------------------------------------------------
// W-status (C13, C19): check-mode worlds

pub fn gen_status(rng: &mut Rng) -> Case {
    let mut w = base_world();
    maybe_cwd_config(rng, &mut w);
    let n = rng.range(1, max_files(7, 12));
    // a third of the worlds are healthy (statuses 0 and 1 only): the fault-free configuration is
    // sampled on its own so that the relaxations made for faults cannot hide an ordinary bug
    let healthy = rng.chance(35);
    let classes: &[(Class, u64)] = if healthy {
        &[(Class::Formatted, 55), (Class::Unformatted, 38), (Class::Probe, 7)]
    } else {
        &[(Class::Formatted, 30), (Class::Unformatted, 40), (Class::Unparseable, 18), (Class::NonUtf8, 6), (Class::Probe, 6)]
    };
    let files = populate(rng, &mut w, n, classes);
    let mut args = simple_args(rng, &files);
    if !healthy {
        add_missing_args(rng, &mut args);
    }
    let mut opts = Opts { check: true, num_threads: random_threads(rng), files: args, ..Default::default() };
    opts.output_format = rng
        .pick_weighted(&[(None, 30), (Some("standard"), 10), (Some("unified"), 20), (Some("json"), 20), (Some("summary"), 20)])
        .map(|s| if rng.chance(15) { s.to_uppercase() } else { s.to_string() });
    opts.verify = rng.chance(25);
    opts.verbose = rng.chance(10);
    opts.color = rng.pick_weighted(&[(None, 70), (Some("always"), 12), (Some("Never"), 10), (Some("AUTO"), 8)]).map(|s| s.to_string());
    if rng.chance(8) {
        opts.range_start = Some(rng.below(10) as usize);
        opts.range_end = Some(10 + rng.below(60) as usize);
    }
    if rng.chance(15) {
        opts.overrides = random_option_set(rng, 2);
    }
    let formatted: Vec<String> = files.iter().filter(|(_, c)| *c == Class::Formatted).map(|(p, _)| p.clone()).collect();
    finalise_formatted(&mut w, &opts, &formatted);
    // read faults on selected files
    let mut faults = Vec::new();
    let sel = model::select(&w, &opts);
    if healthy {
        let inv = Invocation { opts: opts.clone(), stdin: None, faults, sched: random_sched(rng), dir_key: rng.next(), pre_edits: vec![] };
        let mut invs = vec![inv];
        if rng.chance(30) {
            // check again after the user has edited one of the files: the verdict follows the tree
            let cands: Vec<&String> = sel.selected.iter().collect();
            if !cands.is_empty() {
                let f: &String = rng.pick(&cands);
                let new = if rng.chance(70) { rng.pick(UNFORMATTED).as_bytes().to_vec() } else { b"local ok = true\n".to_vec() };
                let mut o2 = opts.clone();
                o2.num_threads = random_threads(rng);
                invs.push(Invocation {
                    opts: o2,
                    stdin: None,
                    faults: vec![],
                    sched: random_sched(rng),
                    dir_key: rng.next(),
                    pre_edits: vec![(f.to_string(), new)],
                });
            }
        }
        return Case { family: "status-healthy".into(), world: w, invs };
    }
    if rng.chance(30) {
        let cands: Vec<&String> = sel.selected.iter().collect();
        if !cands.is_empty() {
            let f = rng.pick(&cands);
            faults.push(fault("fs.read", f, rng.pick(&["EACCES", "EIO"])));
        }
    }
    if rng.chance(10) {
        add_permission_faults(rng, &mut w, &opts);
    }
    if rng.chance(5) {
        let cands: Vec<&String> = sel.selected.iter().collect();
        if !cands.is_empty() {
            let f: &String = rng.pick(&cands);
            let kind = rng.pick(&["EAGAIN", "ETIMEDOUT", "EINTR"]);
            if !faults.iter().any(|x: &Fault| x.path == format!("$W/{f}")) {
                for nth in 0..3 {
                    let mut fl = fault("fs.file.read", f, kind);
                    fl.nth = nth;
                    faults.push(fl);
                }
            }
        }
    }
    // "…or verified": a verification failure / a formatter crash on one of the selected files
    if rng.chance(12) {
        let cands: Vec<&String> = sel.selected.iter().collect();
        if !cands.is_empty() {
            let f: &String = rng.pick(&cands);
            let kind = if opts.verify && rng.chance(60) { "verify" } else { "panic" };
            if !faults.iter().any(|x: &Fault| x.path == format!("$W/{f}")) {
                faults.push(fault("format", f, kind));
            }
        }
    }
    // stream faults on the diff output: EINTR / short writes must be invisible, EPIPE is an error
    if rng.chance(12) {
        let (kind, arg) = rng.pick(&[("EINTR", 0u64), ("short", 1), ("short", 7), ("EPIPE", 0)]);
        faults.push(Fault { site: "stdout.write".into(), path: String::new(), nth: rng.below(3) as u32, kind: kind.into(), arg });
    }
    let inv = Invocation { opts, stdin: None, faults, sched: random_sched(rng), dir_key: rng.next(), pre_edits: vec![] };
    Case { family: "status".into(), world: w, invs: vec![inv] }
}

// ---------------------------------------------------------------------------------------------
// W-write (C14, C19): write-mode histories

pub fn gen_write(rng: &mut Rng) -> Case {
    let mut w = base_world();
    maybe_cwd_config(rng, &mut w);
    let n = rng.range(1, max_files(7, 12));
    let files = populate(
        rng,
        &mut w,
        n,
        &[(Class::Formatted, 25), (Class::Unformatted, 50), (Class::Unparseable, 15), (Class::NonUtf8, 5), (Class::Probe, 5)],
    );
    // abort source: a malformed nested stylua.toml
    let abort = rng.chance(15);
    if abort {
        let d = rng.pick(&["sub", "sub/deep", "lib"]);
        let (text, _) = malformed_toml(rng);
        w.files.insert(wpath(d, "stylua.toml"), text.into_bytes());
    }
    let mut args = simple_args(rng, &files);
    if rng.chance(30) {
        add_missing_args(rng, &mut args);
    }
    let mut opts = Opts { check: false, num_threads: random_threads(rng), files: args, ..Default::default() };
    opts.verify = rng.chance(35);
    opts.verbose = rng.chance(5);
    if rng.chance(10) {
        opts.overrides = random_option_set(rng, 2);
    }
    if rng.chance(10) {
        opts.output_format = Some("json".into());
    }
    // a stray `<file>.tmp` beside a target (left by an editor, or by an earlier interrupted run of
    // some tool): not a Lua file, must stay as it is, and must not get in anybody's way
    if rng.chance(6) {
        if let Some((p, _)) = files.first() {
            w.files.insert(format!("{p}.tmp"), b"scratch\n".to_vec());
            let stem = p.rsplit_once('.').map(|x| x.0).unwrap_or(p);
            w.files.insert(format!("{stem}.tmp"), b"scratch2\n".to_vec());
        }
    }
    // a verification failure the library produces by itself: `--verify` with require sorting on a
    // file whose requires are out of order (the reordered AST differs from the input's)
    if rng.chance(5) {
        opts.verify = true;
        if !opts.overrides.iter().any(|(k, _)| k == "sort_requires") {
            opts.overrides.push(("sort_requires".into(), "true".into()));
        }
        let p = wpath(rng.pick(DIRS), "req.lua");
        w.files.insert(p, b"local b = require(\"b\")\nlocal a = require(\"a\")\nprint(a, b)\n".to_vec());
    }
    // a byte range on the first run only: later runs see the whole file again
    let ranged_first_run = rng.chance(8);
    if ranged_first_run {
        opts.range_start = Some(0);
        opts.range_end = Some(rng.range(5, 40) as usize);
    }
    // the places a tool might keep state between runs exist and are writable
    if rng.chance(30) {
        w.home = Some("home".into());
        w.files.insert("home/.cache/.keep".into(), Vec::new());
        w.files.insert("home/.config/.keep".into(), Vec::new());
    }
    let formatted: Vec<String> = files.iter().filter(|(_, c)| *c == Class::Formatted).map(|(p, _)| p.clone()).collect();
    finalise_formatted(&mut w, &opts, &formatted);
    let sel = model::select(&w, &opts);
    let cands: Vec<&String> = sel.selected.iter().collect();
    let mut faults = Vec::new();
    if !cands.is_empty() {
        let nf = rng.pick_weighted(&[(0u64, 35), (1, 45), (2, 20)]);
        for _ in 0..nf {
            let f = rng.pick(&cands);
            let kind = rng.pick_weighted(&[("read", 25), ("wopen", 30), ("panic", 30), ("verify", 15)]);
            let fl = match kind {
                "read" => fault("fs.read", f, rng.pick(&["EACCES", "EIO"])),
                "wopen" => fault("fs.write.open", f, "EACCES"),
                "panic" => fault("format", f, "panic"),
                _ => fault("format", f, "verify"),
            };
            if !faults.iter().any(|x: &Fault| x.path == fl.path) {
                faults.push(fl);
            }
        }
    }
    if rng.chance(8) && !cands.is_empty() {
        let f: &String = rng.pick(&cands);
        faults.push(fault("fs.canonicalize", f, rng.pick(&["EIO", "EACCES"])));
    }
    if rng.chance(6) && !cands.is_empty() {
        // the data write itself fails (full disk, I/O error): the file cannot stay whole, but the
        // failure must be reported
        let f: &String = rng.pick(&cands);
        let mut fl = fault("fs.write.data", f, rng.pick(&["ENOSPC", "EIO"]));
        fl.arg = rng.below(12);
        if !faults.iter().any(|x: &Fault| x.path == fl.path) {
            faults.push(fl);
        }
    }
    if rng.chance(5) && !cands.is_empty() {
        // transient errors on a file handle (only implementations that read through `File` meet
        // them): three in a row — give up on the file or keep retrying, but never pretend
        let f: &String = rng.pick(&cands);
        let kind = rng.pick(&["EAGAIN", "ETIMEDOUT", "EINTR"]);
        if !faults.iter().any(|x: &Fault| x.path == format!("$W/{f}")) {
            for nth in 0..3 {
                let mut fl = fault("fs.file.read", f, kind);
                fl.nth = nth;
                faults.push(fl);
            }
        }
    }
    if rng.chance(6) && !cands.is_empty() {
        // only an implementation that replaces files by rename ever meets this one
        let f: &String = rng.pick(&cands);
        faults.push(fault("fs.rename", f, "EIO"));
    }
    if rng.chance(12) && !abort {
        add_permission_faults(rng, &mut w, &opts);
    }
    let inv1 = Invocation { opts: opts.clone(), stdin: None, faults, sched: random_sched(rng), dir_key: rng.next(), pre_edits: vec![] };
    let mut invs = vec![inv1];
    let more = rng.below(3);
    if more >= 1 {
        // second write pass, no faults: nothing already formatted may be rewritten — and a file
        // the user has edited in between must be formatted again
        let mut o2 = opts.clone();
        o2.num_threads = random_threads(rng);
        if ranged_first_run && rng.chance(60) {
            o2.range_start = None;
            o2.range_end = None;
        }
        let mut pre_edits = Vec::new();
        if rng.chance(45) && !cands.is_empty() {
            let f: &String = rng.pick(&cands);
            if w.files.contains_key(f.as_str()) {
                pre_edits.push((f.to_string(), rng.pick(UNFORMATTED).as_bytes().to_vec()));
            }
        }
        invs.push(Invocation { opts: o2, stdin: None, faults: vec![], sched: random_sched(rng), dir_key: rng.next(), pre_edits });
    }
    if more >= 2 {
        let mut o3 = opts.clone();
        o3.check = true;
        o3.num_threads = random_threads(rng);
        o3.output_format = Some("summary".into());
        if ranged_first_run {
            o3.range_start = None;
            o3.range_end = None;
        }
        if rng.chance(30) {
            o3.verify = !o3.verify;
        }
        let mut pre_edits = Vec::new();
        if rng.chance(30) && !cands.is_empty() {
            let f: &String = rng.pick(&cands);
            if w.files.contains_key(f.as_str()) {
                pre_edits.push((f.to_string(), rng.pick(UNFORMATTED).as_bytes().to_vec()));
            }
        }
        invs.push(Invocation { opts: o3, stdin: None, faults: vec![], sched: random_sched(rng), dir_key: rng.next(), pre_edits });
    }
    Case { family: "write".into(), world: w, invs }
}

// ---------------------------------------------------------------------------------------------
// W-config (C15)

pub fn gen_config(rng: &mut Rng) -> Case {
    let mut w = base_world();
    // working directory: proj or proj/sub
    let cwd_sub = rng.chance(30);
    if cwd_sub {
        w.cwd = format!("{CWD}/sub");
    }
    // stylua.toml at a random subset of levels
    let levels: &[&str] = &["outer", "outer/proj", "outer/proj/sub", "outer/proj/sub/leaf", "outer/proj/lib"];
    for l in levels {
        if rng.chance(30) {
            let name = if rng.chance(65) { "stylua.toml" } else { ".stylua.toml" };
            let mut o = random_option_set(rng, 3);
            if rng.chance(8) {
                // the deprecated spelling, possibly beside `call_parentheses`
                o.push(("no_call_parentheses".into(), "true".into()));
            }
            w.files.insert(format!("{l}/{name}"), toml_text(&o).into_bytes());
        }
    }
    // .editorconfig at or below the working directory
    for l in &levels[1..] {
        if l.starts_with(w.cwd.as_str()) && rng.chance(30) {
            w.files.insert(format!("{l}/.editorconfig"), editorconfig_text(rng).into_bytes());
        }
    }
    // XDG / HOME
    if rng.chance(40) {
        w.xdg = Some("xdg".into());
        if rng.chance(60) {
            let sub = if rng.chance(50) { "xdg" } else { "xdg/stylua" };
            let o = random_option_set(rng, 2);
            w.files.insert(format!("{sub}/stylua.toml"), toml_text(&o).into_bytes());
        }
    }
    if rng.chance(40) {
        w.home = Some("home".into());
        if rng.chance(60) {
            let sub = if rng.chance(50) { "home/.config" } else { "home/.config/stylua" };
            let o = random_option_set(rng, 2);
            w.files.insert(format!("{sub}/.stylua.toml"), toml_text(&o).into_bytes());
        }
    }
    // probe files in several directories (several per directory: the memo is hit repeatedly)
    let mut targets: Vec<String> = Vec::new();
    let file_dirs: Vec<&str> =
        levels[1..].iter().cloned().filter(|l| l.starts_with(w.cwd.as_str())).collect();
    for d in &file_dirs {
        let k = rng.below(3);
        for i in 0..k {
            let p = format!("{d}/p{i}.lua");
            w.files.insert(p.clone(), PROBE.as_bytes().to_vec());
            targets.push(p);
        }
    }
    if targets.is_empty() {
        let p = format!("{}/p0.lua", w.cwd);
        w.files.insert(p.clone(), PROBE.as_bytes().to_vec());
        targets.push(p);
    }
    let mut opts = Opts { num_threads: random_threads(rng), ..Default::default() };
    opts.search_parents = rng.chance(40);
    opts.no_editorconfig = rng.chance(20);
    if rng.chance(40) {
        opts.overrides = random_option_set(rng, 3);
    }
    if rng.chance(15) {
        let o = random_option_set(rng, 3);
        w.files.insert("outer/custom.toml".into(), toml_text(&o).into_bytes());
        opts.config_path = Some(if cwd_sub { "../../custom.toml".into() } else { "../custom.toml".into() });
    }
    opts.check = rng.chance(25);
    let cwd = w.cwd.clone();
    let rel = |p: &str| p.strip_prefix(&format!("{cwd}/")).unwrap_or(p).to_string();
    let mut stdin = None;
    if rng.chance(25) {
        // stdin target
        opts.files = vec!["-".into()];
        if rng.chance(60) {
            let d = rng.pick(&file_dirs);
            let name = if rng.chance(50) { "p0.lua" } else { "zz.lua" };
            opts.stdin_filepath = Some(rel(&format!("{d}/{name}")));
        }
        stdin = Some(PROBE.as_bytes().to_vec());
    } else if rng.chance(50) {
        opts.files = vec![".".into()];
    } else {
        let mut fs: Vec<String> = targets.iter().map(|t| rel(t)).collect();
        rng.shuffle(&mut fs);
        opts.files = fs;
    }
    // a symbolic link to a file outside the working directory, named explicitly: the
    // configuration is the one found from the link's directory, not the target's
    if opts.files != vec!["-".to_string()] && rng.chance(12) {
        let o = random_option_set(rng, 3);
        w.files.insert("outer/elsewhere/stylua.toml".into(), toml_text(&o).into_bytes());
        w.files.insert("outer/elsewhere/real.lua".into(), PROBE.as_bytes().to_vec());
        let up = if cwd_sub { "../../elsewhere/real.lua" } else { "../elsewhere/real.lua" };
        w.symlinks.insert(format!("{}/lk.lua", w.cwd), up.to_string());
        // explicit files only: what a directory walk does with links is not specified
        let mut fs: Vec<String> = targets.iter().map(|t| rel(t)).collect();
        fs.push("lk.lua".into());
        rng.shuffle(&mut fs);
        opts.files = fs;
    }
    let mut faults = Vec::new();
    if rng.chance(6) {
        // F7: a config file is unreadable
        let cfgs: Vec<&String> = w.files.keys().filter(|k| k.ends_with("stylua.toml")).collect();
        if !cfgs.is_empty() {
            let c: &String = rng.pick(&cfgs);
            faults.push(fault("fs.read", c, "EACCES"));
        }
    }
    let inv = Invocation { opts, stdin, faults, sched: random_sched(rng), dir_key: rng.next(), pre_edits: vec![] };
    // both configuration names in one directory.  Which of the two wins is not documented, so
    // either is accepted (check::execute) — but the choice must not depend on the order in which
    // the directory happens to list them (check::check_case runs the twin with the order flipped).
    // Drawn last so that the rest of the case is the same as without this block.
    if rng.chance(12) {
        let cfgs: Vec<String> =
            w.files.keys().filter(|k| k.ends_with("/stylua.toml") || k.ends_with("/.stylua.toml")).cloned().collect();
        if !cfgs.is_empty() {
            let c: String = rng.pick(&cfgs).clone();
            let other = match c.strip_suffix("/.stylua.toml") {
                Some(d) => format!("{d}/stylua.toml"),
                None => format!("{}/.stylua.toml", c.strip_suffix("/stylua.toml").unwrap()),
            };
            if !w.files.contains_key(&other) {
                let o = random_option_set(rng, 3);
                w.files.insert(other, toml_text(&o).into_bytes());
            }
            w.create_rev = rng.chance(50);
        }
    }
    Case { family: "config".into(), world: w, invs: vec![inv] }
}

// ---------------------------------------------------------------------------------------------
// W-select (C16)

pub fn gen_select(rng: &mut Rng) -> Case {
    // stay inside the fragment the model is defined on (DESIGN.md §5.1): regenerate worlds the
    // model itself flags as ambiguous
    loop {
        let c = gen_select_once(rng);
        if model::select(&c.world, &c.invs[0].opts).ambiguous.is_none() {
            return c;
        }
    }
}

fn gen_select_once(rng: &mut Rng) -> Case {
    let mut w = base_world();
    let names: &[&str] =
        &["a.lua", "b.lua", "c.lua", "t.spec.lua", "u.spec.lua", "m.luau", "notes.txt", "README", ".hidden.lua", "data.json", ".lua"];
    let dirs: &[&str] = &["", "sub", "sub/deep", "src", "vendor", ".h", "src/vendor"];
    let n = rng.range(3, max_files(9, 16));
    let mut all: Vec<String> = Vec::new();
    let mut tries = 0;
    while (all.len() as u64) < n && tries < 100 {
        tries += 1;
        let p = wpath(rng.pick(dirs), rng.pick(names));
        if w.files.contains_key(&p) {
            continue;
        }
        let bytes = if rng.chance(75) { rng.pick(UNFORMATTED).as_bytes().to_vec() } else { b"local ok = true\n".to_vec() };
        w.files.insert(p.clone(), bytes);
        all.push(p);
    }
    // .styluaignore files
    let ig_dirs: &[&str] = &["", "sub", "src", "sub/deep"];
    for d in ig_dirs {
        let p = if d.is_empty() { 45 } else { 20 };
        if rng.chance(p) {
            let mut lines: Vec<String> = Vec::new();
            let k = rng.range(1, 3);
            for _ in 0..k {
                let l = match rng.below(8) {
                    0 => "vendor/".to_string(),
                    1 => "*.spec.lua".to_string(),
                    2 => format!("{}", rng.pick(&["a.lua", "b.lua", "c.lua"])),
                    3 => format!("/{}", rng.pick(&["a.lua", "b.lua"])),
                    4 => "sub/*.lua".to_string(),
                    5 => "deep/".to_string(),
                    6 => "*.luau".to_string(),
                    _ => "src/".to_string(),
                };
                lines.push(l);
            }
            if rng.chance(25) {
                lines.push(format!("!{}", rng.pick(&["a.lua", "t.spec.lua", "c.lua"])));
            }
            w.files.insert(wpath(d, ".styluaignore"), (lines.join("\n") + "\n").into_bytes());
        }
    }
    let mut opts = Opts { num_threads: random_threads(rng), ..Default::default() };
    opts.check = rng.chance(50);
    if opts.check {
        opts.output_format = Some(rng.pick(&["summary", "json", "standard"]).to_string());
    }
    opts.allow_hidden = rng.chance(25);
    opts.respect_ignores = rng.chance(35);
    // arguments: files, directories, `.`, overlapping, repeated, differently spelt
    let mut existing_dirs: BTreeSet<String> = BTreeSet::new();
    for p in &all {
        let rel = rel_to_cwd(p);
        let comps: Vec<&str> = rel.split('/').collect();
        for end in 1..comps.len() {
            existing_dirs.insert(comps[..end].join("/"));
        }
    }
    let dir_list: Vec<String> = existing_dirs.into_iter().filter(|d| !d.split('/').any(|c| c.starts_with('.'))).collect();
    let mut args: Vec<String> = Vec::new();
    let nargs = rng.range(1, 4);
    for _ in 0..nargs {
        let a = match rng.below(10) {
            0..=2 => ".".to_string(),
            3..=5 if !dir_list.is_empty() => {
                let d: String = rng.pick(&dir_list);
                if rng.chance(25) {
                    format!("./{d}")
                } else {
                    d
                }
            }
            _ => {
                let f = rel_to_cwd(&rng.pick(&all));
                if rng.chance(25) {
                    format!("./{f}")
                } else {
                    f
                }
            }
        };
        args.push(a);
    }
    if rng.chance(10) {
        args.push("nothing-here.lua".into());
    }
    let has_explicit_file = args.iter().any(|a| {
        let t = a.trim_start_matches("./");
        w.files.contains_key(&format!("{CWD}/{t}"))
    });
    // user globs — never together with --respect-ignores on explicit files (the help text and
    // the README disagree on what that combination means; the model does not guess)
    if rng.chance(30) && !(opts.respect_ignores && has_explicit_file) {
        let sets: &[&[&str]] = &[
            &["**/*.lua"],
            &["*.lua", "!*.spec.lua"],
            &["*.spec.lua"],
            &["**/c.lua", "**/b.lua"],
            &["src/**"],
            &["*.luau", "*.lua"],
        ];
        opts.globs = Some(rng.pick(sets).iter().map(|s| s.to_string()).collect());
    }
    if opts.respect_ignores {
        // hidden explicit paths under --respect-ignores: unspecified, not generated
        args.retain(|a| !a.split('/').any(|c| c.starts_with('.') && c.len() > 1 && c != ".."));
        if args.is_empty() {
            args.push(".".into());
        }
    }
    opts.files = args;
    let mut faults = Vec::new();
    if opts.files.len() == 1 && rng.chance(12) {
        // realpath fails for one file: it must still be processed (once).  Only with a single
        // argument: without realpath two spellings of one file cannot be told apart.
        let f: String = rng.pick(&all);
        faults.push(fault("fs.canonicalize", &f, "EIO"));
    }
    let inv = Invocation { opts, stdin: None, faults, sched: random_sched(rng), dir_key: rng.next(), pre_edits: vec![] };
    Case { family: "select".into(), world: w, invs: vec![inv] }
}

// ---------------------------------------------------------------------------------------------
// W-stdin (C17)

pub fn gen_stdin(rng: &mut Rng, big: bool) -> Case {
    let mut w = base_world();
    maybe_cwd_config(rng, &mut w);
    // a few files that must stay untouched
    w.files.insert(wpath("", "keep.lua"), b"local   keep =   1\n".to_vec());
    w.files.insert(wpath("sub", "x.lua"), b"local   x =   1\n".to_vec());
    if rng.chance(30) {
        w.files.insert(wpath("sub", ".editorconfig"), editorconfig_text(rng).into_bytes());
    }
    if rng.chance(30) {
        let o = random_option_set(rng, 2);
        w.files.insert(wpath("sub", "stylua.toml"), toml_text(&o).into_bytes());
    }
    let ignore_here = rng.chance(40);
    if ignore_here {
        let d = if rng.chance(70) { "" } else { "sub" };
        w.files.insert(wpath(d, ".styluaignore"), b"x.lua\nignored/\n".to_vec());
    }
    let input: Vec<u8> = match rng.below(12) {
        0 => Vec::new(),
        1 => rng.pick(UNPARSEABLE).as_bytes().to_vec(),
        2 => b"local x = 1\n\xff\xfe\n".to_vec(),
        3 => PROBE.as_bytes().to_vec(),
        4 => PROBE.replace('\n', "\r\n").into_bytes(),
        6 => "\u{feff}local   bom = 1\n".as_bytes().to_vec(),
        7 if rng.chance(12) => {
            // larger than a pipe buffer (64 KiB): output must not be cut at any internal limit
            let mut s = String::new();
            for i in 0..2600 {
                s.push_str(&format!("local   v{i} = {{ {i},  {i} }}\n"));
            }
            s.into_bytes()
        }
        5 if big => {
            let mut s = String::new();
            let reps = 2000 + rng.below(20000);
            for i in 0..reps {
                s.push_str(&format!("local   v{i} = {{ {i},  {i} }}\n"));
            }
            s.into_bytes()
        }
        _ => rng.pick(UNFORMATTED).as_bytes().to_vec(),
    };
    let mut opts = Opts { num_threads: random_threads(rng), files: vec!["-".into()], ..Default::default() };
    // the multi-megabyte inputs go through write mode only: an unoptimised line diff of 20 000
    // changed lines takes the better part of a minute and tests the diff library, not the CLI
    opts.check = rng.chance(30) && input.len() < 150_000;
    if opts.check {
        opts.output_format = rng.pick(&[None, Some("unified"), Some("json"), Some("summary")]).map(|s| s.to_string());
    } else if rng.chance(15) {
        // the format option is accepted (and must stay without effect on stdout) in write mode
        opts.output_format = Some(rng.pick(&["json", "standard"]).to_string());
    }
    opts.verify = rng.chance(30);
    opts.color = rng.pick_weighted(&[(None, 80), (Some("always"), 10), (Some("never"), 10)]).map(|s| s.to_string());
    if rng.chance(55) {
        opts.stdin_filepath = Some(rng.pick(&["sub/x.lua", "keep.lua", "sub/new.lua", "ignored/y.lua", "sub/ignored/z.lua"]).to_string());
    }
    opts.respect_ignores = rng.chance(50);
    if rng.chance(8) {
        // --stdin-filepath names a symbolic link to a file outside the project: the path as
        // given is what the ignore rules and the configuration search see
        w.files.insert("outer/elsewhere/real.lua".into(), b"local   real = 1\n".to_vec());
        w.symlinks.insert(wpath("", "lk.lua"), "../elsewhere/real.lua".into());
        opts.stdin_filepath = Some("lk.lua".into());
        if rng.chance(60) {
            w.files.insert(wpath("", ".styluaignore"), b"lk.lua\n".to_vec());
        }
    }
    if rng.chance(20) {
        opts.overrides = random_option_set(rng, 2);
    }
    if rng.chance(8) {
        opts.range_start = Some(0);
        opts.range_end = Some(rng.below(40) as usize);
    }
    let mut faults = Vec::new();
    let f = |site: &str, nth: u32, kind: &str, arg: u64| Fault { site: site.into(), path: String::new(), nth, kind: kind.into(), arg };
    match rng.below(13) {
        10 => {
            // the producer stalls (simulated seconds) before more input arrives: a consumer
            // must wait for end of input, not for a quiet moment
            faults.push(f("stdin.read", rng.below(3) as u32, "stall", *&[3u64, 30, 3600][rng.below(3) as usize]));
            if rng.chance(50) {
                faults.push(f("stdin.read", 0, "short", 1 + rng.below(9)));
            }
        }
        11 => {
            // a non-blocking stdout: part of the text is accepted, then EAGAIN
            faults.push(f("stdout.write", 0, "short", 1 + rng.below(9)));
            faults.push(f("stdout.write", 1, "EAGAIN", 0));
        }
        0 => faults.push(f("stdin.read", rng.below(3) as u32, "EINTR", 0)),
        1 => faults.push(f("stdin.read", rng.below(2) as u32, "short", 1 + rng.below(7))),
        2 => faults.push(f("stdin.read", rng.below(2) as u32, "EIO", 0)),
        3 => faults.push(f("stdout.write", rng.below(2) as u32, "EINTR", 0)),
        4 => faults.push(f("stdout.write", rng.below(2) as u32, "short", 1 + rng.below(9))),
        5 => faults.push(f("stdout.write", rng.below(2) as u32, "EPIPE", 0)),
        6 => {
            faults.push(f("stdin.read", 0, "short", 1 + rng.below(5)));
            faults.push(f("stdin.read", 1, "EINTR", 0));
            faults.push(f("stdout.write", 0, "short", 1 + rng.below(5)));
            faults.push(f("stdout.write", 1, "EINTR", 0));
        }
        _ => {}
    }
    // stdin together with files on the same command line
    if rng.chance(12) && opts.stdin_filepath.as_deref() != Some("keep.lua") {
        let extra = rng.pick(&["keep.lua", "sub/x.lua"]).to_string();
        if opts.stdin_filepath.as_deref() != Some(extra.as_str()) {
            if rng.chance(50) {
                opts.files.insert(0, extra);
            } else {
                opts.files.push(extra);
            }
        }
    }
    let inv = Invocation { opts, stdin: Some(input), faults, sched: random_sched(rng), dir_key: rng.next(), pre_edits: vec![] };
    Case { family: "stdin".into(), world: w, invs: vec![inv] }
}
