//! Per-property evaluation of one case: run its invocations through the simulator and apply
//! the property's oracles.
use crate::exec::{run_inv, RunResult, Scratch};
use crate::gen;
use crate::model::{self, Expected};
use crate::oracle::{self, Violation};
use crate::rng::Rng;
use crate::world::{Case, Invocation, World};
use std::collections::BTreeSet;
use std::path::Path;

pub struct RunRecord {
    pub inv: Invocation,
    pub world: World,
    pub expected: Expected,
    /// a second acceptable verdict: when reads on a file handle met transient errors the
    /// program may give up on that file (`expected`) or retry until it succeeds (`alt`)
    pub alt: Option<Expected>,
    pub run: RunResult,
}

pub struct CaseOutcome {
    /// each violation with the concrete case variant(s) that exhibit it (two for a
    /// differential violation)
    pub violations: Vec<(Violation, Vec<Case>)>,
    pub records: Vec<RunRecord>,
    pub harness: Option<String>,
}

pub fn gen_case(property: &str, rng: &mut Rng, tier_thorough: bool) -> Case {
    match property {
        "C13" => gen::gen_status(rng),
        "C14" => gen::gen_write(rng),
        "C15" => gen::gen_config(rng),
        "C16" => gen::gen_select(rng),
        "C17" => gen::gen_stdin(rng, tier_thorough),
        "C19" => match rng.below(10) {
            0 => gen::gen_c19_canonical(rng),
            1 => gen::gen_c19_spellings(rng),
            2..=5 => gen::gen_status(rng),
            _ => gen::gen_write(rng),
        },
        "C20" => crate::carrier::gen_carrier(rng),
        _ => panic!("unknown property {property}"),
    }
}

fn world_after(world: &World, run: &RunResult) -> World {
    let mut w = world.clone();
    w.files = run.after.files.iter().map(|(k, v)| (k.clone(), v.bytes.clone())).collect();
    w
}

/// Run the invocations of `case` in order over one tree; returns the records.
pub fn execute(bin: &Path, scratch: &Scratch, case: &Case) -> Result<Vec<RunRecord>, String> {
    let mut world = case.world.clone();
    let mut recs = Vec::new();
    for (i, inv) in case.invs.iter().enumerate() {
        // the user edits files between invocations
        if i > 0 && !inv.pre_edits.is_empty() {
            for (p, bytes) in &inv.pre_edits {
                if world.files.contains_key(p) {
                    std::fs::write(scratch.world_root().join(p), bytes).map_err(|e| format!("pre-edit {p}: {e}"))?;
                    world.files.insert(p.clone(), bytes.clone());
                }
            }
        }
        let mut run = run_inv(bin, scratch, &world, inv, i == 0)?;
        if let Some(h) = oracle::harness_problem(&run) {
            // infrastructure failures are retried once (a run is a pure function of its plan)
            if i == 0 {
                run = run_inv(bin, scratch, &world, inv, true)?;
            }
            if let Some(h2) = oracle::harness_problem(&run) {
                return Err(format!("{h} / retry: {h2}"));
            }
        }
        // The model is told about the faults that actually fired, not the ones planned: an
        // implementation that reaches a file through another API than the shadowed one never
        // meets the fault, and must not be blamed for not failing.
        let effective: Vec<simplan::Fault> = inv
            .faults
            .iter()
            .filter(|f| run.trace.fired.iter().any(|x| x.site == f.site && x.path == f.path && x.nth == f.nth && x.kind == f.kind))
            .cloned()
            .collect();
        // transient errors on a file handle: treated by the model as a failed read of that file …
        let mut as_read_failure = effective.clone();
        let mut had_handle_faults = false;
        for f in effective.iter().filter(|f| f.site == "fs.file.read") {
            had_handle_faults = true;
            as_read_failure.push(simplan::Fault { site: "fs.read".into(), path: f.path.clone(), nth: 0, kind: f.kind.clone(), arg: 0 });
        }
        let expected = model::expected(&world, &inv.opts, inv.stdin.as_deref(), &as_read_failure);
        // … or, for a program that retries until the read succeeds, as no fault at all
        let mut alt = if had_handle_faults { Some(model::expected(&world, &inv.opts, inv.stdin.as_deref(), &effective)) } else { None };
        // a directory with both `stylua.toml` and `.stylua.toml`: the documentation does not say
        // which one is used, so the other precedence is an acceptable verdict as well
        if alt.is_none() && !world.both_config_names().is_empty() {
            let mut w2 = world.clone();
            w2.dot_first = true;
            alt = Some(model::expected(&w2, &inv.opts, inv.stdin.as_deref(), &as_read_failure));
        }
        let next = world_after(&world, &run);
        recs.push(RunRecord { inv: inv.clone(), world: world.clone(), expected, alt, run });
        world = next;
    }
    Ok(recs)
}

fn decorate_config(vs: Vec<Violation>, rec: &RunRecord) -> Vec<Violation> {
    // name the configuration source the model used for the offending file
    let none = BTreeSet::new();
    vs.into_iter()
        .map(|mut v| {
            let path = v.detail.split(':').next().unwrap_or("").to_string();
            let (dir, name) = if rec.world.files.contains_key(&path) {
                (path.rsplit_once('/').map(|x| x.0.to_string()).unwrap_or_default(), path.rsplit('/').next().unwrap().to_string())
            } else if let Some(p) = &rec.inv.opts.stdin_filepath {
                let wp = crate::world::world_rel(&rec.world.cwd, p).unwrap_or_default();
                (wp.rsplit_once('/').map(|x| x.0.to_string()).unwrap_or_default(), wp.rsplit('/').next().unwrap().to_string())
            } else {
                (rec.world.cwd.clone(), "*.lua".to_string())
            };
            let r = model::resolve_config(&rec.world, &rec.inv.opts, &dir, &name, &none);
            let src = match r.source {
                model::ConfigSource::ConfigPath => "config-path",
                model::ConfigSource::Toml(_) => "stylua-toml",
                model::ConfigSource::EditorConfig => "editorconfig",
                model::ConfigSource::Defaults => "defaults",
            };
            v.class = format!(
                "{}/source-{}{}{}",
                v.class,
                src,
                if rec.inv.opts.overrides.is_empty() { "" } else { "/with-cli-overrides" },
                if rec.inv.opts.search_parents { "/search-parents" } else { "" }
            );
            v
        })
        .collect()
}

pub fn oracles_for(property: &str, recs: &[RunRecord]) -> Vec<Violation> {
    let mut out = Vec::new();
    for (i, rec) in recs.iter().enumerate() {
        let first = oracles_for_one(property, i, rec, &rec.expected);
        if first.is_empty() {
            continue;
        }
        // "may fail, never return wrong data": either verdict is acceptable, nothing else is
        match &rec.alt {
            Some(alt) if oracles_for_one(property, i, rec, alt).is_empty() => {}
            _ => out.extend(first),
        }
    }
    out
}

fn oracles_for_one(property: &str, i: usize, rec: &RunRecord, ex: &Expected) -> Vec<Violation> {
    let mut out = Vec::new();
    {
        let (inv, run, world) = (&rec.inv, &rec.run, &rec.world);
        out.extend(oracle::liveness(property, run, i));
        if crate::oracle::sim_reserved(run.status) {
            return out;
        }
        let stdin_mode = ex.selection.stdin;
        match property {
            "C13" => {
                out.extend(oracle::no_write_oracle(property, run, i));
                if run.trace.fired.iter().any(|f| f.site == "stdout.write" && f.kind == "EPIPE") {
                    // a diff could not be delivered.  Reporting that as an error (2) is fine, and so
                    // is the status the files themselves call for; anything lower hides a
                    // difference or a failure
                    if run.status != 2 && run.status != ex.status {
                        out.push(Violation {
                            property: property.into(),
                            class: format!("status/after-stdout-error/expected-{}-or-2-got-{}", ex.status, run.status),
                            detail: "stdout write failed (EPIPE) and the exit status is below what the files call for".into(),
                            inv_index: i,
                        });
                    }
                } else {
                    out.extend(oracle::status_oracle(property, inv, ex, run, i));
                    out.extend(oracle::report_oracle(property, inv, world, ex, run, i));
                }
            }
            "C14" => {
                if inv.opts.check {
                    out.extend(oracle::no_write_oracle(property, run, i).into_iter().map(|mut v| {
                        v.class = format!("history-check/{}", v.class);
                        v
                    }));
                    out.extend(oracle::status_oracle(property, inv, ex, run, i).into_iter().map(|mut v| {
                        v.class = format!("history-check/{}", v.class);
                        v
                    }));
                } else {
                    out.extend(oracle::tree_oracle(property, "write", inv, ex, run, i));
                    out.extend(oracle::status_oracle(property, inv, ex, run, i));
                    out.extend(oracle::once_oracle(property, "write", run, i));
                }
            }
            "C15" | "C20" => {
                let pre = if property == "C15" { "config" } else { "carrier" };
                if stdin_mode {
                    let kf8 = model::stdin_skip_kf8(world, &inv.opts);
                    let vs = oracle::stdin_oracle(property, inv, ex, run, i, kf8);
                    out.extend(decorate_config(vs, rec));
                    out.extend(oracle::no_write_oracle(property, run, i));
                } else {
                    let vs = oracle::tree_oracle(property, pre, inv, ex, run, i);
                    out.extend(decorate_config(vs, rec));
                    let vs = oracle::report_oracle(property, inv, world, ex, run, i);
                    out.extend(decorate_config(vs, rec));
                    let vs = oracle::status_oracle(property, inv, ex, run, i);
                    out.extend(decorate_config(vs, rec));
                }
            }
            "C16" => {
                out.extend(oracle::selection_oracle(property, inv, world, ex, run, i));
                out.extend(oracle::tree_oracle(property, "select", inv, ex, run, i).into_iter().filter(|v| {
                    // C16 owns "every other file keeps its bytes"; content of selected files is C14/C15
                    v.class.contains("unselected") || v.class.contains("kf7") || v.class.contains("kf8") || v.class.contains("created") || v.class.contains("removed")
                }));
                out.extend(oracle::once_oracle(property, "select", run, i));
                if inv.opts.check {
                    out.extend(
                        oracle::report_oracle(property, inv, world, ex, run, i)
                            .into_iter()
                            .filter(|v| v.class.contains("duplicate")),
                    );
                }
            }
            "C17" => {
                let kf8 = model::stdin_skip_kf8(world, &inv.opts);
                out.extend(oracle::stdin_oracle(property, inv, ex, run, i, kf8));
                // check mode: stdout carries a diff record for "stdin" iff the input differs, and
                // nothing else (in particular nothing on a parse error)
                let stream_fault = run.trace.fired.iter().any(|f| f.kind == "EIO" || f.kind == "EPIPE" || f.kind == "EAGAIN");
                if inv.opts.check && !stream_fault {
                    out.extend(oracle::report_oracle(property, inv, world, ex, run, i).into_iter().map(|mut v| {
                        v.class = format!("stdin/{}{}", v.class, if kf8 { "/respect-ignores-stdin-filepath-non-nearest-ignore-file" } else { "" });
                        v
                    }));
                }
                if inv.opts.files.iter().any(|f| f != "-") && !inv.opts.check {
                    // files named beside `-` are formatted in place as usual; everything else stays
                    out.extend(oracle::tree_oracle(property, "stdin-mixed", inv, ex, run, i));
                } else {
                    out.extend(oracle::no_write_oracle(property, run, i));
                }
            }
            "C19" => {
                out.extend(oracle::masking_oracle(property, inv, run, i));
            }
            _ => {}
        }
    }
    out
}

/// The observable outcome C19 compares across schedules and thread counts.
#[derive(Clone, Debug, PartialEq)]
pub struct Outcome {
    pub statuses: Vec<i32>,
    pub tree: Vec<(String, u64)>,
}

pub fn outcome_of(recs: &[RunRecord]) -> Outcome {
    let last = recs.last().unwrap();
    Outcome {
        statuses: recs.iter().map(|r| r.run.status).collect(),
        tree: last.run.after.files.iter().map(|(k, v)| (k.clone(), simplan::fnv(&v.bytes, 7))).collect(),
    }
}

pub fn describe_outcome_diff(a: &Outcome, b: &Outcome) -> (String, String) {
    if a.statuses != b.statuses {
        let mut x = [format!("{:?}", a.statuses), format!("{:?}", b.statuses)];
        x.sort();
        return (format!("differential/exit-status/{}-vs-{}", x[0], x[1]).replace(' ', ""), format!("{:?} vs {:?}", a.statuses, b.statuses));
    }
    let diff: Vec<&String> = a
        .tree
        .iter()
        .zip(b.tree.iter())
        .filter(|(x, y)| x != y)
        .map(|(x, _)| &x.0)
        .collect();
    ("differential/file-contents".to_string(), format!("files differing between schedules: {:?}", diff))
}

/// Evaluate one case for one property.
pub fn check_case(property: &str, bin: &Path, scratch: &Scratch, case: &Case, rng: &mut Rng, k_schedules: usize) -> CaseOutcome {
    let recs = match execute(bin, scratch, case) {
        Ok(r) => r,
        Err(e) => return CaseOutcome { violations: vec![], records: vec![], harness: Some(e) },
    };
    let mut violations: Vec<(Violation, Vec<Case>)> =
        oracles_for(property, &recs).into_iter().map(|v| (v, vec![case.clone()])).collect();
    let mut records = recs;
    if property == "C15" && !case.world.both_config_names().is_empty() {
        // which of the two names wins may be either, but not a function of the listing order:
        // the same case with the directory entries created in the opposite order
        let base = outcome_of(&records);
        let base_live = records.iter().all(|r| !crate::oracle::sim_reserved(r.run.status));
        let mut c2 = case.clone();
        c2.world.create_rev = !c2.world.create_rev;
        match execute(bin, scratch, &c2) {
            Err(e) => return CaseOutcome { violations, records, harness: Some(e) },
            Ok(r2) => {
                violations.extend(oracles_for(property, &r2).into_iter().map(|v| (v, vec![c2.clone()])));
                let live = r2.iter().all(|r| !crate::oracle::sim_reserved(r.run.status));
                if live && base_live && outcome_of(&r2) != base {
                    let (class, detail) = describe_outcome_diff(&base, &outcome_of(&r2));
                    violations.push((
                        Violation {
                            property: property.into(),
                            class: format!("config/depends-on-directory-listing-order/{class}"),
                            detail,
                            inv_index: r2.len() - 1,
                        },
                        vec![case.clone(), c2.clone()],
                    ));
                }
                records.extend(r2);
            }
        }
    }
    if property == "C19" {
        // the same world and options under other schedules and thread counts
        let base = outcome_of(&records);
        let base_live = records.iter().all(|r| !crate::oracle::sim_reserved(r.run.status));
        for k in 0..k_schedules {
            let mut c2 = case.clone();
            for inv in c2.invs.iter_mut() {
                inv.sched = gen::random_sched(rng);
                if k % 2 == 0 {
                    inv.opts.num_threads = gen::random_threads(rng);
                }
            }
            match execute(bin, scratch, &c2) {
                Err(e) => return CaseOutcome { violations, records, harness: Some(e) },
                Ok(r2) => {
                    violations.extend(oracles_for(property, &r2).into_iter().map(|v| (v, vec![c2.clone()])));
                    let live = r2.iter().all(|r| !crate::oracle::sim_reserved(r.run.status));
                    if live && base_live {
                        let o2 = outcome_of(&r2);
                        if o2 != base {
                            let (class, detail) = describe_outcome_diff(&base, &o2);
                            let idx = r2.len() - 1;
                            violations.push((
                                Violation { property: property.into(), class, detail, inv_index: idx },
                                vec![case.clone(), c2.clone()],
                            ));
                            // keep the diverging pair for the replay file
                            records.extend(r2);
                            break;
                        }
                    }
                    records.extend(r2);
                }
            }
        }
    }
    CaseOutcome { violations, records, harness: None }
}
