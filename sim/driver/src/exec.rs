//! Execute one invocation of the simulated binary against a materialised world.
use crate::world::{snapshot, Invocation, Snapshot, World};
use simplan::Plan;
use std::path::{Path, PathBuf};
use std::process::{Command, Stdio};
use std::time::{Duration, Instant};

#[derive(Clone, Debug, Default)]
pub struct Event {
    pub step: u64,
    pub tid: usize,
    pub nrun: usize,
    pub label: String,
    pub notes: Vec<String>,
}

#[derive(Clone, Debug, Default)]
pub struct TaskEnd {
    pub tid: usize,
    pub name: String,
    pub status: String,
    pub pending: String,
}

#[derive(Clone, Debug, Default)]
pub struct FiredFault {
    pub tid: usize,
    pub site: String,
    pub path: String,
    pub nth: u32,
    pub kind: String,
}

#[derive(Clone, Debug, Default)]
pub struct Trace {
    pub events: Vec<Event>,
    pub exit: Option<(i32, String)>,
    pub tasks: Vec<TaskEnd>,
    pub steps: u64,
    /// simulated nanoseconds elapsed (timeouts / sleeps / stalls; 0 for most runs)
    pub sim_ns: u64,
    pub fired: Vec<FiredFault>,
    pub wakes: Vec<(u64, u32, u32)>,
    pub panics: Vec<usize>,
    pub raw: String,
}

impl Trace {
    pub fn parse(raw: String) -> Trace {
        let mut t = Trace::default();
        for line in raw.lines() {
            let f: Vec<&str> = line.split('\t').collect();
            match f[0] {
                "E" if f.len() >= 5 => t.events.push(Event {
                    step: f[1].parse().unwrap_or(0),
                    tid: f[2].parse().unwrap_or(0),
                    nrun: f[3].parse().unwrap_or(0),
                    label: f[4].to_string(),
                    notes: Vec::new(),
                }),
                "N" if f.len() >= 3 => {
                    if let Some(e) = t.events.last_mut() {
                        e.notes.push(f[2].to_string());
                    }
                }
                "X" if f.len() >= 3 => {
                    t.exit = Some((f[1].parse().unwrap_or(-1), f[2].to_string()));
                }
                "T" if f.len() >= 5 => t.tasks.push(TaskEnd {
                    tid: f[1].parse().unwrap_or(0),
                    name: f[2].to_string(),
                    status: f[3].to_string(),
                    pending: f[4].to_string(),
                }),
                "S" => {
                    for kv in &f[1..] {
                        if let Some(v) = kv.strip_prefix("steps=") {
                            t.steps = v.parse().unwrap_or(0);
                        }
                        if let Some(v) = kv.strip_prefix("sim_ns=") {
                            t.sim_ns = v.parse().unwrap_or(0);
                        }
                    }
                }
                "F" if f.len() >= 6 => t.fired.push(FiredFault {
                    tid: f[1].parse().unwrap_or(0),
                    site: f[2].to_string(),
                    path: f[3].to_string(),
                    nth: f[4].parse().unwrap_or(0),
                    kind: f[5].to_string(),
                }),
                "W" if f.len() >= 4 => {
                    t.wakes.push((f[1].parse().unwrap_or(0), f[2].parse().unwrap_or(0), f[3].parse().unwrap_or(0)))
                }
                "P" if f.len() >= 2 => t.panics.push(f[1].parse().unwrap_or(0)),
                _ => {}
            }
        }
        t.raw = raw;
        t
    }

    /// The decision list: for every step the task that ran.
    pub fn decisions(&self) -> Vec<(u64, u32)> {
        self.events.iter().filter(|e| e.label != "thread.finish").map(|e| (e.step, e.tid as u32)).collect()
    }

    /// Hash of the sequence of (task, operation) — the schedule signature.
    pub fn signature(&self) -> u64 {
        let mut h = 0u64;
        for e in &self.events {
            h = simplan::fnv(e.label.as_bytes(), h ^ e.tid as u64);
        }
        h
    }
    pub fn real_choices(&self) -> u64 {
        self.events.iter().filter(|e| e.nrun >= 2).count() as u64
    }
    pub fn context_switches(&self) -> u64 {
        self.events.windows(2).filter(|w| w[0].tid != w[1].tid).count() as u64
    }
}

#[derive(Clone, Debug, Default)]
pub struct RunResult {
    /// exit status of the process; -1 if killed by a signal; -2 on wall-clock timeout
    pub status: i32,
    pub stdout: Vec<u8>,
    pub stderr: Vec<u8>,
    pub trace: Trace,
    pub before: Snapshot,
    pub after: Snapshot,
    pub wall_us: u64,
}

pub struct Scratch {
    pub dir: PathBuf,
}

impl Scratch {
    pub fn new(tag: &str) -> Scratch {
        let base = if Path::new("/dev/shm").is_dir() { PathBuf::from("/dev/shm") } else { std::env::temp_dir() };
        let dir = base.join(format!("stylua-verif-{}", std::process::id())).join(tag);
        let _ = std::fs::remove_dir_all(&dir);
        std::fs::create_dir_all(&dir).expect("cannot create scratch dir");
        {
            use std::os::unix::fs::PermissionsExt;
            let _ = std::fs::set_permissions(&dir, std::fs::Permissions::from_mode(0o755));
            if let Some(parent) = dir.parent() {
                let _ = std::fs::set_permissions(parent, std::fs::Permissions::from_mode(0o755));
            }
        }
        Scratch { dir }
    }
    pub fn world_root(&self) -> PathBuf {
        self.dir.join("W")
    }
}

impl Drop for Scratch {
    fn drop(&mut self) {
        let _ = std::fs::remove_dir_all(&self.dir);
    }
}

/// The driver refuses to run if an ancestor of the scratch directory could leak configuration
/// into the world.
pub fn check_ancestors_clean(dir: &Path) -> Result<(), String> {
    let mut cur = dir.parent();
    while let Some(d) = cur {
        for n in ["stylua.toml", ".stylua.toml", ".editorconfig", ".styluaignore", ".ignore", ".git", ".gitignore"] {
            if d.join(n).exists() {
                return Err(format!("scratch ancestor {} contains {}", d.display(), n));
            }
        }
        cur = d.parent();
    }
    Ok(())
}

/// Copy the simulated binary to the scratch area (world-accessible, so that the unprivileged
/// runs can execute it wherever /verif happens to live) and return the staged path.
pub fn stage_binary(src: &Path) -> Result<PathBuf, String> {
    use std::os::unix::fs::PermissionsExt;
    let base = if Path::new("/dev/shm").is_dir() { PathBuf::from("/dev/shm") } else { std::env::temp_dir() };
    let root = base.join(format!("stylua-verif-{}", std::process::id()));
    let dir = root.join("bin");
    std::fs::create_dir_all(&dir).map_err(|e| format!("stage {}: {e}", dir.display()))?;
    for d in [&root, &dir] {
        std::fs::set_permissions(d, std::fs::Permissions::from_mode(0o755)).map_err(|e| e.to_string())?;
    }
    let dst = dir.join("stylua-sim");
    std::fs::copy(src, &dst).map_err(|e| format!("stage {} -> {}: {e}", src.display(), dst.display()))?;
    std::fs::set_permissions(&dst, std::fs::Permissions::from_mode(0o755)).map_err(|e| e.to_string())?;
    Ok(dst)
}

pub fn sim_binary() -> PathBuf {
    if let Ok(p) = std::env::var("STYLUA_SIM_BIN") {
        return PathBuf::from(p);
    }
    let exe = std::env::current_exe().expect("current_exe");
    exe.parent().unwrap().join("stylua-sim")
}

pub fn run_inv(bin: &Path, scratch: &Scratch, world: &World, inv: &Invocation, materialise: bool) -> Result<RunResult, String> {
    let root = scratch.world_root();
    if materialise {
        world.materialise(&root).map_err(|e| format!("materialise: {e}"))?;
    }
    let before = snapshot(&root).map_err(|e| format!("snapshot: {e}"))?;
    let trace_path = scratch.dir.join("trace.txt");
    let _ = std::fs::remove_file(&trace_path);
    let plan = Plan {
        world_root: root.to_string_lossy().into_owned(),
        trace_path: trace_path.to_string_lossy().into_owned(),
        sched: inv.sched.clone(),
        max_steps: 200_000,
        dir_key: inv.dir_key,
        faults: inv.faults.clone(),
    };
    let plan_path = scratch.dir.join("plan.json");
    std::fs::write(&plan_path, serde_json::to_vec(&plan).unwrap()).map_err(|e| format!("plan: {e}"))?;
    let out_path = scratch.dir.join("stdout.bin");
    let err_path = scratch.dir.join("stderr.bin");
    let in_path = scratch.dir.join("stdin.bin");
    std::fs::write(&in_path, inv.stdin.clone().unwrap_or_default()).map_err(|e| format!("stdin: {e}"))?;
    let mk = |p: &Path| std::fs::File::create(p).map_err(|e| format!("create {}: {e}", p.display()));
    let mut cmd = Command::new(bin);
    cmd.args(inv.opts.to_argv())
        .current_dir(world.abs_cwd(&root))
        .env_clear()
        .env("STYLUA_VERIF_PLAN", &plan_path)
        .env("RUST_BACKTRACE", "0")
        .stdin(Stdio::from(std::fs::File::open(&in_path).map_err(|e| e.to_string())?))
        .stdout(Stdio::from(mk(&out_path)?))
        .stderr(Stdio::from(mk(&err_path)?));
    if let Some(h) = &world.home {
        cmd.env("HOME", root.join(h));
    }
    if let Some(h) = &world.xdg {
        cmd.env("XDG_CONFIG_HOME", root.join(h));
    }
    if world.unpriv {
        use std::os::unix::fs::PermissionsExt;
        use std::os::unix::process::CommandExt;
        // the trace file must be writable by the unprivileged child
        std::fs::write(&trace_path, b"").map_err(|e| e.to_string())?;
        std::fs::set_permissions(&trace_path, std::fs::Permissions::from_mode(0o666)).map_err(|e| e.to_string())?;
        cmd.uid(65534).gid(65534);
    }
    let t0 = Instant::now();
    let mut child = cmd.spawn().map_err(|e| format!("spawn {}: {e}", bin.display()))?;
    let deadline = t0 + Duration::from_secs(30);
    let status = loop {
        match child.try_wait() {
            Ok(Some(st)) => break st.code().unwrap_or(-1),
            Ok(None) => {
                if Instant::now() > deadline {
                    let _ = child.kill();
                    let _ = child.wait();
                    break -2;
                }
                std::thread::sleep(Duration::from_micros(150));
            }
            Err(e) => return Err(format!("wait: {e}")),
        }
    };
    let wall_us = t0.elapsed().as_micros() as u64;
    let stdout = std::fs::read(&out_path).unwrap_or_default();
    let stderr = std::fs::read(&err_path).unwrap_or_default();
    let raw = std::fs::read_to_string(&trace_path).unwrap_or_default();
    let after = snapshot(&root).map_err(|e| format!("snapshot after: {e}"))?;
    Ok(RunResult { status, stdout, stderr, trace: Trace::parse(raw), before, after, wall_us })
}
