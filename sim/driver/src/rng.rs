//! The only source of randomness in the driver: SplitMix64 seeded from VERIF_SEED.
use simplan::splitmix;

#[derive(Clone)]
pub struct Rng(pub u64);

impl Rng {
    pub fn new(seed: u64) -> Rng {
        Rng(seed)
    }
    /// Independent stream for sub-task `k` (run index, schedule index, …)
    pub fn fork(&self, k: u64) -> Rng {
        let mut s = self.0 ^ k.wrapping_mul(0xD6E8FEB86659FD93);
        let a = splitmix(&mut s);
        Rng(a ^ 0xA5A5_5A5A_1234_5678)
    }
    pub fn next(&mut self) -> u64 {
        splitmix(&mut self.0)
    }
    pub fn below(&mut self, n: u64) -> u64 {
        if n == 0 {
            0
        } else {
            self.next() % n
        }
    }
    pub fn range(&mut self, lo: u64, hi_incl: u64) -> u64 {
        lo + self.below(hi_incl - lo + 1)
    }
    pub fn chance(&mut self, percent: u64) -> bool {
        self.below(100) < percent
    }
    pub fn pick<T: Clone>(&mut self, xs: &[T]) -> T {
        xs[self.below(xs.len() as u64) as usize].clone()
    }
    pub fn pick_weighted<T: Clone>(&mut self, xs: &[(T, u64)]) -> T {
        let total: u64 = xs.iter().map(|x| x.1).sum();
        let mut r = self.below(total);
        for (t, w) in xs {
            if r < *w {
                return t.clone();
            }
            r -= *w;
        }
        xs[0].0.clone()
    }
    pub fn shuffle<T>(&mut self, xs: &mut [T]) {
        for i in (1..xs.len()).rev() {
            let j = self.below(i as u64 + 1) as usize;
            xs.swap(i, j);
        }
    }
}
