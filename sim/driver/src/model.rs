//! The reference model: a small sequential program, written from the README, the `--help`
//! texts and the property statements (not from `main.rs`), that says for one invocation over
//! one world which files are selected, which configuration governs each, what every file must
//! contain afterwards and what the exit status must be.  It is deliberately partial: the
//! generators stay inside the fragment it is defined on.
use crate::world::{world_rel, Opts, World};
use std::collections::{BTreeMap, BTreeSet};
use stylua_lib::{
    CallParenType, CollapseSimpleStatement, Config, IndentType, LineEndings, LuaVersion, OutputVerification,
    QuoteStyle, Range, SortRequiresConfig, SpaceAfterFunctionNames,
};

// ---------------------------------------------------------------------------------------------
// option tables (from the README "Options" table)

pub const SYNTAXES: &[&str] = &["All", "Lua51", "Lua52", "Lua53", "Lua54", "LuaJIT", "Luau"];
pub const LINE_ENDINGS: &[&str] = &["Unix", "Windows"];
pub const INDENT_TYPES: &[&str] = &["Tabs", "Spaces"];
pub const QUOTE_STYLES: &[&str] = &["AutoPreferDouble", "AutoPreferSingle", "ForceDouble", "ForceSingle"];
pub const CALL_PARENS: &[&str] = &["Always", "NoSingleString", "NoSingleTable", "None", "Input"];
pub const COLLAPSE: &[&str] = &["Never", "FunctionOnly", "ConditionalOnly", "Always"];
pub const SPACE_AFTER: &[&str] = &["Never", "Definitions", "Calls", "Always"];

pub const ENUM_OPTIONS: &[(&str, &[&str])] = &[
    ("syntax", SYNTAXES),
    ("line_endings", LINE_ENDINGS),
    ("indent_type", INDENT_TYPES),
    ("quote_style", QUOTE_STYLES),
    ("call_parentheses", CALL_PARENS),
    ("collapse_simple_statement", COLLAPSE),
    ("space_after_function_names", SPACE_AFTER),
];
pub const INT_OPTIONS: &[&str] = &["column_width", "indent_width"];

fn ieq(a: &str, b: &str) -> bool {
    a.eq_ignore_ascii_case(b)
}

/// Apply option `key` with value `val` to `cfg`.  `exact_case`: TOML values are case-sensitive,
/// command-line values are not.
pub fn apply_option(cfg: &mut Config, key: &str, val: &str, exact_case: bool) -> Result<(), String> {
    let m = |cands: &[&str]| -> Result<usize, String> {
        cands
            .iter()
            .position(|c| if exact_case { *c == val } else { ieq(c, val) })
            .ok_or_else(|| format!("invalid value {val:?} for {key}"))
    };
    match key {
        "syntax" => {
            cfg.syntax = match m(SYNTAXES)? {
                0 => LuaVersion::All,
                1 => LuaVersion::Lua51,
                2 => LuaVersion::Lua52,
                3 => LuaVersion::Lua53,
                4 => LuaVersion::Lua54,
                5 => LuaVersion::LuaJIT,
                _ => LuaVersion::Luau,
            }
        }
        "column_width" => cfg.column_width = val.parse::<usize>().map_err(|e| e.to_string())?,
        "indent_width" => cfg.indent_width = val.parse::<usize>().map_err(|e| e.to_string())?,
        "line_endings" => cfg.line_endings = [LineEndings::Unix, LineEndings::Windows][m(LINE_ENDINGS)?],
        "indent_type" => cfg.indent_type = [IndentType::Tabs, IndentType::Spaces][m(INDENT_TYPES)?],
        "quote_style" => {
            cfg.quote_style = [
                QuoteStyle::AutoPreferDouble,
                QuoteStyle::AutoPreferSingle,
                QuoteStyle::ForceDouble,
                QuoteStyle::ForceSingle,
            ][m(QUOTE_STYLES)?]
        }
        "call_parentheses" => {
            cfg.call_parentheses = [
                CallParenType::Always,
                CallParenType::NoSingleString,
                CallParenType::NoSingleTable,
                CallParenType::None,
                CallParenType::Input,
            ][m(CALL_PARENS)?]
        }
        "collapse_simple_statement" => {
            cfg.collapse_simple_statement = [
                CollapseSimpleStatement::Never,
                CollapseSimpleStatement::FunctionOnly,
                CollapseSimpleStatement::ConditionalOnly,
                CollapseSimpleStatement::Always,
            ][m(COLLAPSE)?]
        }
        "space_after_function_names" => {
            cfg.space_after_function_names = [
                SpaceAfterFunctionNames::Never,
                SpaceAfterFunctionNames::Definitions,
                SpaceAfterFunctionNames::Calls,
                SpaceAfterFunctionNames::Always,
            ][m(SPACE_AFTER)?]
        }
        "sort_requires" => {
            cfg.sort_requires = SortRequiresConfig { enabled: val == "true" };
        }
        // deprecated (CHANGELOG: "use call_parentheses = None instead") but still accepted in
        // stylua.toml, and still honoured next to whatever call_parentheses says
        "no_call_parentheses" => {
            if val != "true" && val != "false" {
                return Err(format!("no_call_parentheses wants a boolean, got {val}"));
            }
            #[allow(deprecated)]
            {
                cfg.no_call_parentheses = val == "true";
            }
        }
        _ => return Err(format!("unknown option {key}")),
    }
    Ok(())
}

// ---------------------------------------------------------------------------------------------
// stylua.toml (strict subset parser: anything outside the documented shape is rejected)

pub fn parse_stylua_toml(bytes: &[u8]) -> Result<Config, String> {
    let text = std::str::from_utf8(bytes).map_err(|e| e.to_string())?;
    let mut cfg = Config::default();
    let mut table: Option<String> = None;
    let mut seen: BTreeSet<String> = BTreeSet::new();
    for raw in text.lines() {
        let line = raw.trim();
        if line.is_empty() || line.starts_with('#') {
            continue;
        }
        if line.starts_with('[') {
            if line == "[sort_requires]" {
                table = Some("sort_requires".into());
                continue;
            }
            return Err(format!("unknown table {line}"));
        }
        let (k, v) = line.split_once('=').ok_or_else(|| format!("not key = value: {line}"))?;
        let (k, v) = (k.trim(), v.trim());
        let full = match &table {
            Some(t) => format!("{t}.{k}"),
            None => k.to_string(),
        };
        if !seen.insert(full.clone()) {
            return Err(format!("duplicate key {full}"));
        }
        if let Some(t) = &table {
            if t == "sort_requires" && k == "enabled" && (v == "true" || v == "false") {
                apply_option(&mut cfg, "sort_requires", v, true)?;
                continue;
            }
            return Err(format!("invalid entry in [{t}]: {line}"));
        }
        if k == "no_call_parentheses" {
            apply_option(&mut cfg, k, v, true)?;
        } else if INT_OPTIONS.contains(&k) {
            if v.is_empty() || !v.bytes().all(|b| b.is_ascii_digit()) {
                return Err(format!("{k} wants an integer, got {v}"));
            }
            apply_option(&mut cfg, k, v, true)?;
        } else if ENUM_OPTIONS.iter().any(|(n, _)| *n == k) {
            let inner = v
                .strip_prefix('"')
                .and_then(|s| s.strip_suffix('"'))
                .or_else(|| v.strip_prefix('\'').and_then(|s| s.strip_suffix('\'')))
                .ok_or_else(|| format!("{k} wants a string, got {v}"))?;
            apply_option(&mut cfg, k, inner, true)?;
        } else {
            return Err(format!("unknown key {k}"));
        }
    }
    Ok(cfg)
}

// ---------------------------------------------------------------------------------------------
// .editorconfig (subset: `root = true`, sections `[*]`, `[*.lua]`, `[*.luau]`, plain values)

pub struct EcFile {
    pub root: bool,
    pub sections: Vec<(String, Vec<(String, String)>)>,
    /// a line that is neither a comment, a section header nor `key = value` with both sides
    /// non-empty: the file is malformed
    pub invalid_line: Option<String>,
}

pub fn parse_editorconfig(bytes: &[u8]) -> EcFile {
    let text = String::from_utf8_lossy(bytes);
    let mut f = EcFile { root: false, sections: Vec::new(), invalid_line: None };
    for raw in text.lines() {
        let line = raw.trim();
        if line.is_empty() || line.starts_with('#') || line.starts_with(';') {
            continue;
        }
        if line.starts_with('[') && line.ends_with(']') {
            f.sections.push((line[1..line.len() - 1].to_string(), Vec::new()));
            continue;
        }
        match line.split_once('=') {
            Some((k, v)) if !k.trim().is_empty() && !v.trim().is_empty() => {}
            _ => {
                f.invalid_line.get_or_insert(line.to_string());
                continue;
            }
        }
        if let Some((k, v)) = line.split_once('=') {
            let (k, v) = (k.trim().to_ascii_lowercase(), v.trim().to_string());
            match f.sections.last_mut() {
                Some(s) => s.1.push((k, v)),
                None => {
                    if k == "root" && v.eq_ignore_ascii_case("true") {
                        f.root = true;
                    }
                }
            }
        }
    }
    f
}

fn ec_section_matches(glob: &str, file_name: &str) -> bool {
    match glob {
        "*" => true,
        g if g.starts_with("*.") => file_name.ends_with(&g[1..]),
        g => g == file_name,
    }
}

/// The mapping fixed by the project's own unit tests (src/editorconfig.rs tests).
fn apply_editorconfig(cfg: &mut Config, props: &BTreeMap<String, String>) {
    let get = |k: &str| props.get(k).map(|v| v.to_ascii_lowercase());
    match get("end_of_line").as_deref() {
        Some("lf") | Some("cr") => cfg.line_endings = LineEndings::Unix,
        Some("crlf") => cfg.line_endings = LineEndings::Windows,
        _ => {}
    }
    match get("indent_size").as_deref() {
        Some("tab") => {
            if let Some(n) = get("tab_width").and_then(|v| v.parse::<usize>().ok()) {
                cfg.indent_width = n;
            }
        }
        Some(v) => {
            if let Ok(n) = v.parse::<usize>() {
                cfg.indent_width = n;
            }
        }
        None => {}
    }
    match get("indent_style").as_deref() {
        Some("tab") => cfg.indent_type = IndentType::Tabs,
        Some("space") => cfg.indent_type = IndentType::Spaces,
        _ => {}
    }
    match get("max_line_length").as_deref() {
        Some("off") => cfg.column_width = usize::MAX,
        Some(v) => {
            if let Ok(n) = v.parse::<usize>() {
                cfg.column_width = n;
            }
        }
        None => {}
    }
    match get("quote_type").as_deref() {
        Some("double") => cfg.quote_style = QuoteStyle::AutoPreferDouble,
        Some("single") => cfg.quote_style = QuoteStyle::AutoPreferSingle,
        _ => {}
    }
    match get("call_parentheses").as_deref() {
        Some("always") => cfg.call_parentheses = CallParenType::Always,
        Some("nosinglestring") => cfg.call_parentheses = CallParenType::NoSingleString,
        Some("nosingletable") => cfg.call_parentheses = CallParenType::NoSingleTable,
        Some("none") => cfg.call_parentheses = CallParenType::None,
        _ => {}
    }
    match get("space_after_function_names").as_deref() {
        Some("always") => cfg.space_after_function_names = SpaceAfterFunctionNames::Always,
        Some("definitions") => cfg.space_after_function_names = SpaceAfterFunctionNames::Definitions,
        Some("calls") => cfg.space_after_function_names = SpaceAfterFunctionNames::Calls,
        Some("never") => cfg.space_after_function_names = SpaceAfterFunctionNames::Never,
        _ => {}
    }
    match get("collapse_simple_statement").as_deref() {
        Some("never") => cfg.collapse_simple_statement = CollapseSimpleStatement::Never,
        Some("functiononly") => cfg.collapse_simple_statement = CollapseSimpleStatement::FunctionOnly,
        Some("conditionalonly") => cfg.collapse_simple_statement = CollapseSimpleStatement::ConditionalOnly,
        Some("always") => cfg.collapse_simple_statement = CollapseSimpleStatement::Always,
        _ => {}
    }
    match get("sort_requires").as_deref() {
        Some("true") => cfg.sort_requires = SortRequiresConfig { enabled: true },
        Some("false") => cfg.sort_requires = SortRequiresConfig { enabled: false },
        _ => {}
    }
}

fn parent_of(p: &str) -> Option<String> {
    if p.is_empty() {
        return None;
    }
    Some(match p.rfind('/') {
        Some(i) => p[..i].to_string(),
        None => String::new(),
    })
}

fn join(dir: &str, name: &str) -> String {
    if dir.is_empty() {
        name.to_string()
    } else {
        format!("{dir}/{name}")
    }
}

fn file_name(p: &str) -> &str {
    p.rsplit('/').next().unwrap_or(p)
}

fn editorconfig_for(world: &World, dir: &str, name: &str, base: Config) -> Result<Config, String> {
    // collect files from `dir` upwards until root = true
    let mut chain: Vec<EcFile> = Vec::new();
    let mut cur = Some(dir.to_string());
    while let Some(d) = cur {
        if let Some(bytes) = world.files.get(&join(&d, ".editorconfig")) {
            let f = parse_editorconfig(bytes);
            if let Some(l) = &f.invalid_line {
                return Err(format!("{}: invalid line {l:?}", join(&d, ".editorconfig")));
            }
            let root = f.root;
            chain.push(f);
            if root {
                break;
            }
        }
        cur = parent_of(&d);
    }
    let mut props: BTreeMap<String, String> = BTreeMap::new();
    for f in chain.iter().rev() {
        for (glob, kvs) in &f.sections {
            if ec_section_matches(glob, name) {
                for (k, v) in kvs {
                    props.insert(k.clone(), v.clone());
                }
            }
        }
    }
    let mut cfg = base;
    if !props.is_empty() {
        apply_editorconfig(&mut cfg, &props);
    }
    Ok(cfg)
}

// ---------------------------------------------------------------------------------------------
// configuration search

#[derive(Clone, Debug, PartialEq)]
pub enum ConfigSource {
    ConfigPath,
    Toml(String),
    EditorConfig,
    Defaults,
}

#[derive(Clone, Debug)]
pub struct Resolved {
    pub config: Result<Config, String>,
    pub source: ConfigSource,
}

fn apply_cli_overrides(mut cfg: Config, opts: &Opts) -> Config {
    for (k, v) in &opts.overrides {
        let v = if k == "sort_requires" { "true" } else { v.as_str() };
        let _ = apply_option(&mut cfg, k, v, false);
    }
    cfg
}

fn toml_in_dir(world: &World, dir: &str) -> Option<String> {
    let names = if world.dot_first { [".stylua.toml", "stylua.toml"] } else { ["stylua.toml", ".stylua.toml"] };
    for n in names {
        let p = join(dir, n);
        if world.files.contains_key(&p) {
            return Some(p);
        }
    }
    None
}

fn dir_exists(world: &World, dir: &str) -> bool {
    if dir.is_empty() {
        return true;
    }
    let prefix = format!("{dir}/");
    world.files.keys().any(|k| k.starts_with(&prefix))
        || world.home.as_deref() == Some(dir)
        || world.xdg.as_deref() == Some(dir)
        || world.cwd == dir
        || world.cwd.starts_with(&prefix)
}

/// `dir`: world-relative directory the search starts in; `name`: file name used for
/// `.editorconfig` section matching.
pub fn resolve_config(world: &World, opts: &Opts, dir: &str, name: &str, faulted: &BTreeSet<String>) -> Resolved {
    let load = |p: &str| -> Result<Config, String> {
        if faulted.contains(p) {
            return Err(format!("{p}: unreadable"));
        }
        parse_stylua_toml(&world.files[p]).map_err(|e| format!("{p}: {e}"))
    };
    if let Some(cp) = &opts.config_path {
        let res = match world_rel(&world.cwd, cp) {
            Some(p) if world.files.contains_key(&p) => load(&p),
            _ => Err(format!("config path {cp} not found")),
        };
        return Resolved { config: res.map(|c| apply_cli_overrides(c, opts)), source: ConfigSource::ConfigPath };
    }
    let mut cur = Some(dir.to_string());
    while let Some(d) = cur {
        if let Some(p) = toml_in_dir(world, &d) {
            return Resolved { config: load(&p).map(|c| apply_cli_overrides(c, opts)), source: ConfigSource::Toml(p) };
        }
        if d == world.cwd && !opts.search_parents {
            break;
        }
        cur = parent_of(&d);
    }
    if opts.search_parents {
        // ancestors of the world root are kept clean by the driver; then the XDG/HOME locations
        let mut locs: Vec<String> = Vec::new();
        if let Some(x) = &world.xdg {
            if dir_exists(world, x) {
                locs.push(x.clone());
                locs.push(join(x, "stylua"));
            }
        }
        if let Some(h) = &world.home {
            let c = join(h, ".config");
            if dir_exists(world, &c) {
                locs.push(c.clone());
                locs.push(join(&c, "stylua"));
            }
        }
        for l in locs {
            if let Some(p) = toml_in_dir(world, &l) {
                return Resolved {
                    config: load(&p).map(|c| apply_cli_overrides(c, opts)),
                    source: ConfigSource::Toml(p),
                };
            }
        }
    }
    if !opts.no_editorconfig {
        let base = Config::default();
        return match editorconfig_for(world, dir, name, base) {
            Err(e) => Resolved { config: Err(e), source: ConfigSource::EditorConfig },
            Ok(ec) => {
                let found = format!("{:?}", ec) != format!("{:?}", base);
                Resolved {
                    config: Ok(apply_cli_overrides(ec, opts)),
                    source: if found { ConfigSource::EditorConfig } else { ConfigSource::Defaults },
                }
            }
        };
    }
    Resolved { config: Ok(apply_cli_overrides(Config::default(), opts)), source: ConfigSource::Defaults }
}

// ---------------------------------------------------------------------------------------------
// gitignore-style matching for the generated fragment

fn seg_match(pat: &[u8], s: &[u8]) -> bool {
    // `*` matches any run of bytes (never '/': segments contain none), `?` one byte
    match pat.first() {
        None => s.is_empty(),
        Some(b'*') => (0..=s.len()).any(|i| seg_match(&pat[1..], &s[i..])),
        Some(b'?') => !s.is_empty() && seg_match(&pat[1..], &s[1..]),
        Some(c) => s.first() == Some(c) && seg_match(&pat[1..], &s[1..]),
    }
}

fn segs_match(pat: &[&str], path: &[&str]) -> bool {
    match pat.first() {
        None => path.is_empty(),
        Some(&"**") => {
            if pat.len() == 1 {
                // trailing `**` matches everything *inside* (at least one component)
                return !path.is_empty();
            }
            (0..=path.len()).any(|i| segs_match(&pat[1..], &path[i..]))
        }
        Some(p) => !path.is_empty() && seg_match(p.as_bytes(), path[0].as_bytes()) && segs_match(&pat[1..], &path[1..]),
    }
}

/// Does gitignore-style `pattern` (without leading `!`) match `rel` (components relative to the
/// pattern's base directory)?
pub fn gi_match(pattern: &str, rel: &[&str], is_dir: bool) -> bool {
    let mut p = pattern;
    let dir_only = p.ends_with('/');
    if dir_only {
        p = &p[..p.len() - 1];
        if !is_dir {
            return false;
        }
    }
    let anchored = p.contains('/');
    let p = p.strip_prefix('/').unwrap_or(p);
    if anchored {
        let segs: Vec<&str> = p.split('/').collect();
        segs_match(&segs, rel)
    } else {
        match rel.last() {
            Some(base) => seg_match(p.as_bytes(), base.as_bytes()),
            None => false,
        }
    }
}

fn ignore_lines(bytes: &[u8]) -> Vec<String> {
    String::from_utf8_lossy(bytes)
        .lines()
        .map(|l| l.trim_end().to_string())
        .filter(|l| !l.is_empty() && !l.starts_with('#'))
        .collect()
}

/// Decision of one ignore file located in `base` for `path` (world-relative components).
fn ignore_file_decision(lines: &[String], base: &[&str], path: &[&str], is_dir: bool) -> Option<bool> {
    if path.len() <= base.len() || path[..base.len()] != *base {
        return None;
    }
    let rel = &path[base.len()..];
    let mut res = None;
    for l in lines {
        let (neg, pat) = match l.strip_prefix('!') {
            Some(r) => (true, r),
            None => (false, l.as_str()),
        };
        if gi_match(pat, rel, is_dir) {
            res = Some(!neg);
        }
    }
    res
}

/// Is the entry `path` (world-relative) excluded by the `.styluaignore` files found in the
/// directories from `top` (inclusive) down to the entry's parent?  A directory that is ignored
/// excludes everything below it.  `only`: restrict to these ignore-file directories (used to
/// describe the narrower lookup of known finding KF8).
fn ignored_by_styluaignore(world: &World, top: &str, path: &str, only: Option<&[String]>) -> bool {
    ignored_entry(world, top, path, only, false)
}

/// `leaf_is_dir`: the last component of `path` is a directory.
pub fn ignored_entry(world: &World, top: &str, path: &str, only: Option<&[String]>, leaf_is_dir: bool) -> bool {
    let comps: Vec<&str> = path.split('/').filter(|s| !s.is_empty()).collect();
    let topc: Vec<&str> = top.split('/').filter(|s| !s.is_empty()).collect();
    // every prefix longer than `top`
    for end in (topc.len() + 1)..=comps.len() {
        let prefix = &comps[..end];
        let is_dir = end < comps.len() || leaf_is_dir;
        // ignore files from the deepest directory containing the prefix up to `top`
        let mut decided = None;
        let mut d = end - 1;
        loop {
            let base = &comps[..d];
            let base_s = base.join("/");
            let allowed = only.map(|o| o.contains(&base_s)).unwrap_or(true);
            if allowed {
                if let Some(bytes) = world.files.get(&join(&base_s, ".styluaignore")) {
                    if let Some(dec) = ignore_file_decision(&ignore_lines(bytes), base, prefix, is_dir) {
                        decided = Some(dec);
                        break;
                    }
                }
            }
            if d == topc.len() {
                break;
            }
            d -= 1;
        }
        if decided == Some(true) {
            return true;
        }
    }
    false
}

/// Known finding KF9, modelled exactly: while walking a directory argument `root` other than the
/// working directory, the `ignore` crate matches ignore files found *above* `root` against
/// `<root>/<entry name>` — every intermediate directory between `root` and the entry is
/// stripped.  Ignore files at or below `root` are matched correctly.
pub fn ignored_entry_mangled(world: &World, top: &str, root: &str, path: &str) -> bool {
    let comps: Vec<&str> = path.split('/').filter(|s| !s.is_empty()).collect();
    let topc: Vec<&str> = top.split('/').filter(|s| !s.is_empty()).collect();
    let rootc: Vec<&str> = root.split('/').filter(|s| !s.is_empty()).collect();
    for end in (rootc.len() + 1)..=comps.len() {
        let prefix = &comps[..end];
        let is_dir = end < comps.len();
        let mut mangled: Vec<&str> = rootc.clone();
        mangled.push(prefix[end - 1]);
        let mut decided = None;
        let mut d = end - 1;
        loop {
            let base = &comps[..d];
            let base_s = base.join("/");
            if let Some(bytes) = world.files.get(&join(&base_s, ".styluaignore")) {
                let target: &[&str] = if d < rootc.len() { &mangled } else { prefix };
                if let Some(dec) = ignore_file_decision(&ignore_lines(bytes), base, target, is_dir) {
                    decided = Some(dec);
                    break;
                }
            }
            if d == topc.len() {
                break;
            }
            d -= 1;
        }
        if decided == Some(true) {
            return true;
        }
    }
    false
}

fn is_hidden_below(root: &str, path: &str) -> bool {
    // components strictly below the walk root
    let rest = if root.is_empty() { path } else { path.strip_prefix(root).map(|r| r.trim_start_matches('/')).unwrap_or(path) };
    rest.split('/').any(|c| c.starts_with('.') && c != "." && !c.is_empty())
}

#[derive(Clone, Copy, Debug, PartialEq)]
enum GlobVerdict {
    Whitelisted,
    Excluded,
    NoMatch,
}

fn user_glob_verdict(globs: &[String], cwd: &str, path: &str, is_dir: bool) -> GlobVerdict {
    let cwdc: Vec<&str> = cwd.split('/').filter(|s| !s.is_empty()).collect();
    let comps: Vec<&str> = path.split('/').filter(|s| !s.is_empty()).collect();
    if comps.len() <= cwdc.len() {
        return GlobVerdict::NoMatch;
    }
    let rel = &comps[cwdc.len()..];
    let mut v = GlobVerdict::NoMatch;
    for g in globs {
        let (neg, pat) = match g.strip_prefix('!') {
            Some(r) => (true, r),
            None => (false, g.as_str()),
        };
        if gi_match(pat, rel, is_dir) {
            v = if neg { GlobVerdict::Excluded } else { GlobVerdict::Whitelisted };
        }
    }
    v
}

fn default_glob(path: &str) -> bool {
    path.ends_with(".lua") || path.ends_with(".luau")
}

// ---------------------------------------------------------------------------------------------
// selection

#[derive(Clone, Debug, Default)]
pub struct Selection {
    /// world-relative paths of the files to process
    pub selected: BTreeSet<String>,
    /// arguments that name nothing
    pub missing_args: Vec<String>,
    /// KF7: files a user whitelist glob matches but an ignore rule / the hidden filter excludes
    pub kf7_candidates: BTreeSet<String>,
    /// KF8: explicit paths under --respect-ignores that only a non-nearest ignore file excludes
    pub kf8_candidates: BTreeSet<String>,
    /// KF9: files below a directory argument (other than `.`) for which an ignore file above
    /// that directory holds a pattern containing a slash — the walker matches such patterns
    /// against a mangled path, so the file's fate is a known finding either way
    pub kf9_candidates: BTreeSet<String>,
    /// the invocation is outside the fragment the model is defined on (reason)
    pub ambiguous: Option<String>,
    /// directories the walk cannot read (unprivileged run): one error each, nothing below them
    pub unreadable_dirs: Vec<String>,
    /// stdin requested
    pub stdin: bool,
}

fn files_under<'a>(world: &'a World, dir: &str) -> Vec<&'a String> {
    let prefix = if dir.is_empty() { String::new() } else { format!("{dir}/") };
    world.files.keys().filter(|k| k.starts_with(&prefix)).collect()
}

/// The narrower lookup the shipped code performs for explicit paths (known finding KF8): only
/// the ignore file in the path's own directory, or failing that the one in the working directory.
fn kf8_dirs(world: &World, path: &str) -> Vec<String> {
    let own = parent_of(path).unwrap_or_default();
    if world.files.contains_key(&join(&own, ".styluaignore")) {
        vec![own]
    } else {
        vec![world.cwd.clone()]
    }
}

/// A negated pattern that names a file lying under an excluded directory: git says it cannot
/// be re-included, the explicit-path check of the CLI re-includes it; the generated fragment
/// keeps clear of it (DESIGN.md §6.4: "`!name.lua` for a name not under an ignored directory").
fn negation_under_excluded_dir(world: &World) -> Option<String> {
    let negs: Vec<String> = world
        .files
        .iter()
        .filter(|(k, _)| k.ends_with(".styluaignore"))
        .flat_map(|(_, b)| ignore_lines(b))
        .filter_map(|l| l.strip_prefix('!').map(|s| s.to_string()))
        .collect();
    if negs.is_empty() {
        return None;
    }
    for f in world.files.keys() {
        let name = file_name(f);
        if !negs.iter().any(|n| gi_match(n, &[name], false)) {
            continue;
        }
        if let Some(dir) = parent_of(f) {
            if dir.len() > world.cwd.len() && ignored_entry(world, &world.cwd, &dir, None, true) {
                return Some(format!("negated pattern names {f}, which lies under an excluded directory"));
            }
        }
    }
    None
}

pub fn select(world: &World, opts: &Opts) -> Selection {
    let mut sel = Selection { ambiguous: negation_under_excluded_dir(world), ..Default::default() };
    for arg in &opts.files {
        if arg == "-" {
            sel.stdin = true;
            continue;
        }
        let Some(p) = world_rel(&world.cwd, arg) else {
            sel.missing_args.push(arg.clone());
            continue;
        };
        if world.real_path(&p).is_some() {
            // explicit file (possibly through a file symlink: the path as given is what counts)
            if !opts.respect_ignores {
                sel.selected.insert(p);
                continue;
            }
            if opts.globs.is_none() && !default_glob(&p) {
                continue;
            }
            // KF8 cuts both ways: the narrow lookup can miss a rule that excludes the path, and it
            // can miss a negation (in a directory between the path and the working directory) that
            // re-includes it
            let full = ignored_by_styluaignore(world, &world.cwd, &p, None);
            let narrow = ignored_by_styluaignore(world, &world.cwd, &p, Some(&kf8_dirs(world, &p)));
            if full != narrow {
                sel.kf8_candidates.insert(p.clone());
            }
            if full {
                continue;
            }
            sel.selected.insert(p);
        } else if dir_exists(world, &p) {
            // directory traversal
            if p != world.cwd && ignored_entry(world, &world.cwd, &p, None, true) {
                sel.ambiguous = Some(format!("directory argument {arg} is itself excluded by an ignore rule"));
            }
            let root_hidden = p != world.cwd
                && p.strip_prefix(&world.cwd).unwrap_or(&p).split('/').any(|c| c.starts_with('.') && c.len() > 1);
            if root_hidden {
                sel.ambiguous = Some(format!("directory argument {arg} is hidden"));
            }
            // KF9: the walker matches ignore files found above a directory argument against a
            // mangled path (`<some root>/<entry name>`; with several roots the first root's
            // name can be used for all of them), which only matters for patterns that contain a
            // slash.  Any file under such an argument is a candidate.
            let slash_pattern_above = p != world.cwd && {
                let mut found = false;
                let mut cur = parent_of(&p);
                while let Some(d) = cur {
                    if let Some(b) = world.files.get(&join(&d, ".styluaignore")) {
                        if ignore_lines(b).iter().any(|l| l.trim_start_matches('!').trim_end_matches('/').contains('/')) {
                            found = true;
                        }
                    }
                    if d == world.cwd {
                        break;
                    }
                    cur = parent_of(&d);
                }
                found
            };
            for f in files_under(world, &p) {
                // below a directory without read/search permission nothing is seen
                let mut blocked = false;
                let mut cur = parent_of(f);
                while let Some(d) = cur {
                    if d.len() < p.len() {
                        break;
                    }
                    if let Some(m) = world.mode_of(&d) {
                        if m & 0o005 != 0o005 {
                            if !sel.unreadable_dirs.contains(&d) {
                                sel.unreadable_dirs.push(d.clone());
                            }
                            blocked = true;
                        }
                    }
                    cur = parent_of(&d);
                }
                if blocked {
                    continue;
                }
                let name = file_name(f);
                if name == ".styluaignore" {
                    // an ignore file is never a Lua file; fall through to the glob test
                }
                let hidden = !opts.allow_hidden && is_hidden_below(&p, f);
                let ignored = ignored_by_styluaignore(world, &world.cwd, f, None);
                let glob_ok = match &opts.globs {
                    None => default_glob(f),
                    Some(gs) => {
                        // a directory excluded by a negative glob prunes the subtree
                        let comps: Vec<&str> = f.split('/').collect();
                        let mut pruned = false;
                        let root_len = p.split('/').filter(|s| !s.is_empty()).count();
                        for end in (root_len + 1)..comps.len() {
                            let d = comps[..end].join("/");
                            if user_glob_verdict(gs, &world.cwd, &d, true) == GlobVerdict::Excluded {
                                pruned = true;
                            }
                        }
                        !pruned && user_glob_verdict(gs, &world.cwd, f, false) == GlobVerdict::Whitelisted
                    }
                };
                if slash_pattern_above {
                    sel.kf9_candidates.insert(f.clone());
                }
                if glob_ok && !hidden && !ignored {
                    sel.selected.insert(f.clone());
                } else if glob_ok && opts.globs.is_some() && (hidden || ignored) {
                    sel.kf7_candidates.insert(f.clone());
                }
            }
        } else {
            sel.missing_args.push(arg.clone());
        }
    }
    sel
}

// ---------------------------------------------------------------------------------------------
// expected outcome

#[derive(Clone, Debug, PartialEq)]
pub enum FileExpect {
    /// processing fails (unreadable, not UTF-8, parse error, verification failure, crash,
    /// read-only): the file keeps its bytes, status 2
    Fail(String),
    /// already equals its formatted form
    Same,
    /// must be replaced by exactly these bytes (write mode) / reported as differing (check mode)
    Changed(Vec<u8>),
    /// its own configuration lookup fails: untouched, the run aborts with status 2
    ConfigError(String),
    /// the write of the new contents failed part-way (an injected error on the data write): an
    /// in-place writer cannot keep the file whole then, so its bytes are not constrained — but
    /// the failure must be reported (status 2)
    WriteFailed,
}

#[derive(Clone, Debug, Default)]
pub struct Expected {
    pub selection: Selection,
    pub per_file: BTreeMap<String, FileExpect>,
    /// an error that is raised before any file is dispatched (bad --config-path, bad flag
    /// combination, no files): nothing may be processed at all
    pub pre_abort: Option<String>,
    /// some selected file's configuration lookup fails: the run stops there with status 2;
    /// files walked earlier may or may not have been processed
    pub mid_abort: bool,
    pub status: i32,
    /// files the model expects to be reported as differing (check mode, no abort)
    pub differing: BTreeSet<String>,
    /// stdin mode: expected stdout bytes (write mode) — None when stdout must be empty
    pub stdin_stdout: Option<Vec<u8>>,
    pub stdin_expect: Option<FileExpect>,
    /// selected path as given -> the regular file it denotes, where the two differ (symlinks)
    pub real_of: BTreeMap<String, String>,
}

impl Expected {
    /// Expectation for a selected path as given on the command line / yielded by the walk.
    pub fn expect_for(&self, given: &str) -> Option<&FileExpect> {
        self.per_file.get(self.real_of.get(given).map(|s| s.as_str()).unwrap_or(given))
    }
}

pub fn format_with(cfg: Config, bytes: &[u8], opts: &Opts) -> FileExpect {
    let text = match std::str::from_utf8(bytes) {
        Ok(t) => t,
        Err(_) => return FileExpect::Fail("not valid UTF-8".into()),
    };
    // "cannot be parsed" is decided by the parser itself, not by what `format_code` chooses to
    // do with a broken input: a library change that starts formatting unparseable text must not
    // move the reference with it
    {
        let version: full_moon::LuaVersion = cfg.syntax.into();
        let parse_ok = std::thread::scope(|s| {
            std::thread::Builder::new()
                .stack_size(8 << 20)
                .spawn_scoped(s, || std::panic::catch_unwind(|| full_moon::parse_fallible(text, version).into_result().is_ok()))
                .expect("spawn parser thread")
                .join()
                .unwrap_or(Ok(false))
                .unwrap_or(false)
        });
        if !parse_ok {
            return FileExpect::Fail("error parsing (full_moon)".into());
        }
    }
    let range = if opts.range_start.is_some() || opts.range_end.is_some() {
        Some(Range::from_values(opts.range_start, opts.range_end))
    } else {
        None
    };
    let verify = if opts.verify { OutputVerification::Full } else { OutputVerification::None };
    // a fresh thread per call: the reference output must not depend on anything an earlier
    // call may have left in thread-local state of the library
    let res = std::thread::scope(|s| {
        std::thread::Builder::new()
            .stack_size(8 << 20)
            .spawn_scoped(s, || std::panic::catch_unwind(|| stylua_lib::format_code(text, cfg, range, verify)))
            .expect("spawn model thread")
            .join()
            .unwrap_or_else(Err)
    });
    match res {
        Err(_) => FileExpect::Fail("formatter crashed".into()),
        Ok(Err(e)) => FileExpect::Fail(format!("{e}").chars().take(80).collect()),
        Ok(Ok(out)) => {
            if out.as_bytes() == bytes {
                FileExpect::Same
            } else {
                FileExpect::Changed(out.into_bytes())
            }
        }
    }
}

fn fault_on(faults: &[simplan::Fault], site: &str, wpath: &str) -> Option<String> {
    let key = format!("$W/{wpath}");
    faults.iter().find(|f| f.site == site && f.path == key && f.nth == 0).map(|f| f.kind.clone())
}

pub fn expected(world: &World, opts: &Opts, stdin: Option<&[u8]>, faults: &[simplan::Fault]) -> Expected {
    let mut ex = Expected { selection: select(world, opts), ..Default::default() };
    // config files made unreadable by a fault
    let faulted: BTreeSet<String> = faults
        .iter()
        .filter(|f| f.site == "fs.read" && (f.path.ends_with("stylua.toml")))
        .map(|f| f.path.trim_start_matches("$W/").to_string())
        .collect();

    if opts.files.is_empty() {
        ex.pre_abort = Some("no files provided".into());
    }
    if !opts.check && matches!(opts.output_format.as_deref().map(|s| s.to_ascii_lowercase()).as_deref(), Some("unified") | Some("summary")) {
        ex.pre_abort = Some("output format needs --check".into());
    }
    for (k, val) in &opts.overrides {
        let mut c = Config::default();
        let val = if k == "sort_requires" { "true" } else { val.as_str() };
        if let Err(e) = apply_option(&mut c, k, val, false) {
            ex.pre_abort = Some(format!("flag parser rejects --{k} {val}: {e}"));
        }
    }
    if opts.config_path.is_some() {
        let r = resolve_config(world, opts, &world.cwd, "x.lua", &faulted);
        if let Err(e) = r.config {
            ex.pre_abort = Some(e);
        }
    }
    if ex.pre_abort.is_some() {
        ex.status = 2;
        return ex;
    }

    let mut status = 0;
    if !ex.selection.missing_args.is_empty() || !ex.selection.unreadable_dirs.is_empty() {
        status = 2;
    }
    for f in ex.selection.selected.clone() {
        // configuration is searched from the directory of the path as given; the bytes live
        // in the file the path denotes
        let real = world.real_path(&f).unwrap_or_else(|| f.clone());
        if real != f {
            ex.real_of.insert(f.clone(), real.clone());
        }
        let dir = parent_of(&f).unwrap_or_default();
        let r = resolve_config(world, opts, &dir, file_name(&f), &faulted);
        let fe = match r.config {
            Err(e) => {
                ex.mid_abort = true;
                FileExpect::ConfigError(e)
            }
            Ok(cfg) => {
                if let Some(k) = fault_on(faults, "fs.read", &f) {
                    FileExpect::Fail(format!("read fault {k}"))
                } else if world.mode_of(&real).map(|m| m & 0o004 == 0).unwrap_or(false) {
                    FileExpect::Fail("read fault: no read permission".into())
                } else {
                    let mut fe = format_with(cfg, &world.files[&real], opts);
                    // injected formatter faults apply to files that reach the formatter
                    if std::str::from_utf8(&world.files[&real]).is_ok() {
                        match fault_on(faults, "format", &f).as_deref() {
                            Some("panic") => fe = FileExpect::Fail("injected crash".into()),
                            Some("verify") if opts.verify => fe = FileExpect::Fail("injected verification failure".into()),
                            _ => {}
                        }
                    }
                    if let FileExpect::Changed(_) = fe {
                        if !opts.check && fault_on(faults, "fs.write.data", &f).is_some() {
                            fe = FileExpect::WriteFailed;
                        }
                    }
                    if let FileExpect::Changed(_) = fe {
                        let no_write_perm = world.mode_of(&real).map(|m| m & 0o002 == 0).unwrap_or(false);
                        if !opts.check
                            && (fault_on(faults, "fs.write.open", &f).is_some() || fault_on(faults, "fs.rename", &f).is_some() || no_write_perm)
                        {
                            fe = FileExpect::Fail("read-only".into());
                        }
                    }
                    fe
                }
            }
        };
        match &fe {
            FileExpect::Fail(_) | FileExpect::ConfigError(_) | FileExpect::WriteFailed => status = 2,
            FileExpect::Changed(_) if opts.check => {
                ex.differing.insert(f.clone());
                if status < 1 {
                    status = 1;
                }
            }
            _ => {}
        }
        ex.per_file.insert(real, fe);
    }

    if ex.selection.stdin {
        let (dir, name, path) = match &opts.stdin_filepath {
            Some(p) => {
                let wp = world_rel(&world.cwd, p).unwrap_or_default();
                (parent_of(&wp).unwrap_or_default(), file_name(&wp).to_string(), Some(wp))
            }
            None => (world.cwd.clone(), "*.lua".to_string(), None),
        };
        let skip = opts.respect_ignores
            && path.as_ref().map(|p| ignored_by_styluaignore(world, &world.cwd, p, None)).unwrap_or(false);
        let r = resolve_config(world, opts, &dir, &name, &faulted);
        let input = stdin.unwrap_or_default();
        let fe = match r.config {
            Err(e) => {
                ex.mid_abort = true;
                FileExpect::ConfigError(e)
            }
            Ok(cfg) => {
                if skip {
                    if std::str::from_utf8(input).is_ok() {
                        FileExpect::Same
                    } else {
                        FileExpect::Fail("not valid UTF-8".into())
                    }
                } else {
                    let mut fe = format_with(cfg, input, opts);
                    if std::str::from_utf8(input).is_ok() {
                        match fault_on_plain(faults, "format", "stdin").as_deref() {
                            Some("panic") => fe = FileExpect::Fail("injected crash".into()),
                            Some("verify") if opts.verify => fe = FileExpect::Fail("injected verification failure".into()),
                            _ => {}
                        }
                    }
                    fe
                }
            }
        };
        match &fe {
            FileExpect::Fail(_) | FileExpect::ConfigError(_) | FileExpect::WriteFailed => {
                status = 2;
                ex.stdin_stdout = None;
            }
            FileExpect::Same => {
                ex.stdin_stdout = if opts.check { None } else { Some(input.to_vec()) };
            }
            FileExpect::Changed(out) => {
                if opts.check {
                    if status < 1 {
                        status = 1;
                    }
                    ex.stdin_stdout = None;
                } else {
                    ex.stdin_stdout = Some(out.clone());
                }
            }
        }
        ex.stdin_expect = Some(fe);
    }
    ex.status = status;
    ex
}

fn fault_on_plain(faults: &[simplan::Fault], site: &str, path: &str) -> Option<String> {
    faults.iter().find(|f| f.site == site && f.path == path && f.nth == 0).map(|f| f.kind.clone())
}

pub fn stdin_skip_kf8(world: &World, opts: &Opts) -> bool {
    // true when the pass-through decision differs between full ignore semantics and the
    // narrower nearest-or-cwd lookup (known finding KF8 applied to --stdin-filepath)
    if let (true, Some(p)) = (opts.respect_ignores, &opts.stdin_filepath) {
        if let Some(wp) = world_rel(&world.cwd, p) {
            let full = ignored_by_styluaignore(world, &world.cwd, &wp, None);
            let narrow = ignored_by_styluaignore(world, &world.cwd, &wp, Some(&kf8_dirs(world, &wp)));
            return full != narrow;
        }
    }
    false
}

#[cfg(test)]
mod tests {
    use super::*;
    #[test]
    fn gi() {
        assert!(gi_match("*.lua", &["a", "b.lua"], false));
        assert!(gi_match("vendor/", &["x", "vendor"], true));
        assert!(!gi_match("vendor/", &["x", "vendor"], false));
        assert!(gi_match("/a.lua", &["a.lua"], false));
        assert!(!gi_match("/a.lua", &["s", "a.lua"], false));
        assert!(gi_match("sub/*.lua", &["sub", "c.lua"], false));
        assert!(!gi_match("sub/*.lua", &["sub", "d", "c.lua"], false));
        assert!(gi_match("**/*.lua", &["c.lua"], false));
        assert!(gi_match("**/*.lua", &["s", "t", "c.lua"], false));
        assert!(gi_match("src/**", &["src", "t", "c.lua"], false));
        assert!(!gi_match("src/**", &["src"], true));
    }
}
