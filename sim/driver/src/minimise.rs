//! Replay files and minimisation.  A replay file holds the complete case(s) — tree with file
//! bytes, cwd, argv, env, stdin, faults, thread count, directory-order key — and, per invocation,
//! the forced schedule ("replay" strategy: non-preemptive default + explicit overrides).
use crate::check::{self, describe_outcome_diff, execute, oracles_for, outcome_of, RunRecord};
use crate::exec::Scratch;
use crate::gen;
use crate::oracle::Violation;
use crate::rng::Rng;
use crate::world::Case;
use crate::Found;
use serde::{Deserialize, Serialize};
use simplan::Sched;
use std::path::{Path, PathBuf};
use std::time::Instant;

#[derive(Serialize, Deserialize, Clone, Debug)]
pub struct ReplayFile {
    pub property: String,
    pub class: String,
    pub detail: String,
    pub note: String,
    pub cases: Vec<Case>,
}

/// Run the case(s) and apply the property's oracles (for two cases: also the differential one).
pub fn evaluate(bin: &Path, scratch: &Scratch, property: &str, cases: &[Case]) -> Result<(Vec<Violation>, Vec<Vec<RunRecord>>), String> {
    let mut all = Vec::new();
    let mut recs = Vec::new();
    for c in cases {
        let r = execute(bin, scratch, c)?;
        all.extend(oracles_for(property, &r));
        recs.push(r);
    }
    if (property == "C19" || property == "C15") && recs.len() == 2 {
        let live = recs.iter().all(|r| r.iter().all(|x| !crate::oracle::sim_reserved(x.run.status)));
        if live {
            let (a, b) = (outcome_of(&recs[0]), outcome_of(&recs[1]));
            if a != b {
                let (class, detail) = describe_outcome_diff(&a, &b);
                let class = if property == "C15" { format!("config/depends-on-directory-listing-order/{class}") } else { class };
                all.push(Violation { property: property.into(), class, detail, inv_index: recs[1].len() - 1 });
            }
        }
    }
    Ok((all, recs))
}

fn to_replay(case: &Case, recs: &[RunRecord]) -> Case {
    let mut c = case.clone();
    for (inv, rec) in c.invs.iter_mut().zip(recs.iter()) {
        inv.sched = Sched {
            strategy: "replay".into(),
            target: String::new(),
            seed: 0,
            p: 0,
            d: 0,
            victim: 0,
            overrides: rec.run.trace.decisions(),
            wake_overrides: rec.run.trace.wakes.iter().map(|w| (w.0, w.1)).collect(),
        };
    }
    c
}

fn has_class(vs: &[Violation], class: &str) -> bool {
    vs.iter().any(|v| v.class == class)
}

/// Does `class` recur for these cases — under their own schedules, or under up to `reseeds`
/// fresh seeded schedules?  Returns the (possibly reseeded) cases that exhibit it.
fn recurs(bin: &Path, scratch: &Scratch, property: &str, class: &str, cases: &[Case], rng: &mut Rng, reseeds: usize) -> Option<Vec<Case>> {
    let mut cur: Vec<Case> = cases.to_vec();
    for attempt in 0..=reseeds {
        if attempt > 0 {
            for c in cur.iter_mut() {
                for inv in c.invs.iter_mut() {
                    inv.sched = gen::random_sched(rng);
                }
            }
        }
        match evaluate(bin, scratch, property, &cur) {
            Ok((vs, _)) if has_class(&vs, class) => return Some(cur),
            Ok(_) => {}
            Err(_) => return None,
        }
    }
    None
}

fn candidates(cases: &[Case], inv_index: usize) -> Vec<Vec<Case>> {
    let mut out: Vec<Vec<Case>> = Vec::new();
    let base = &cases[0];
    let apply = |f: &dyn Fn(&mut Case) -> bool| -> Option<Vec<Case>> {
        let mut v = cases.to_vec();
        let mut any = false;
        for c in v.iter_mut() {
            any |= f(c);
        }
        if any {
            Some(v)
        } else {
            None
        }
    };
    // later invocations
    if base.invs.len() > inv_index + 1 {
        if let Some(v) = apply(&|c| {
            c.invs.truncate(inv_index + 1);
            true
        }) {
            out.push(v);
        }
    }
    // faults
    for i in 0..base.invs.len() {
        for j in 0..base.invs[i].faults.len() {
            if let Some(v) = apply(&|c| {
                if c.invs[i].faults.len() > j {
                    c.invs[i].faults.remove(j);
                    true
                } else {
                    false
                }
            }) {
                out.push(v);
            }
        }
    }
    // files
    for k in base.world.files.keys() {
        if k == ".editorconfig" {
            continue;
        }
        if let Some(v) = apply(&|c| c.world.files.remove(k).is_some()) {
            out.push(v);
        }
    }
    // contents: the smallest member of the usual classes
    for (k, bytes) in base.world.files.iter() {
        if !(k.ends_with(".lua") || k.ends_with(".luau")) {
            continue;
        }
        for small in [&b"local   x   =    1\n"[..], &b"local x = 1\n"[..], &b"x = = 2\n"[..]] {
            if bytes.len() > small.len() {
                if let Some(v) = apply(&|c| {
                    c.world.files.insert(k.clone(), small.to_vec());
                    true
                }) {
                    out.push(v);
                }
            }
        }
    }
    // user edits between invocations
    for i in 0..base.invs.len() {
        if !base.invs[i].pre_edits.is_empty() {
            out.extend(apply(&|c| {
                if c.invs.len() > i && !c.invs[i].pre_edits.is_empty() {
                    c.invs[i].pre_edits.clear();
                    true
                } else {
                    false
                }
            }));
        }
    }
    // arguments
    for i in 0..base.invs.len() {
        if base.invs[i].opts.files.len() > 1 {
            for j in 0..base.invs[i].opts.files.len() {
                if let Some(v) = apply(&|c| {
                    if c.invs[i].opts.files.len() > j && c.invs[i].opts.files.len() > 1 {
                        c.invs[i].opts.files.remove(j);
                        true
                    } else {
                        false
                    }
                }) {
                    out.push(v);
                }
            }
        }
        // flags
        let o = &base.invs[i].opts;
        if o.verify {
            out.extend(apply(&|c| {
                c.invs[i].opts.verify = false;
                true
            }));
        }
        if o.verbose {
            out.extend(apply(&|c| {
                c.invs[i].opts.verbose = false;
                true
            }));
        }
        if o.range_start.is_some() || o.range_end.is_some() {
            out.extend(apply(&|c| {
                c.invs[i].opts.range_start = None;
                c.invs[i].opts.range_end = None;
                true
            }));
        }
        for j in 0..o.overrides.len() {
            out.extend(apply(&|c| {
                if c.invs[i].opts.overrides.len() > j {
                    c.invs[i].opts.overrides.remove(j);
                    true
                } else {
                    false
                }
            }));
        }
        if o.num_threads > 2 {
            out.extend(apply(&|c| {
                c.invs[i].opts.num_threads = 2;
                true
            }));
        }
    }
    out
}

fn ddmin_overrides(bin: &Path, scratch: &Scratch, property: &str, class: &str, cases: &mut Vec<Case>, deadline: Instant) {
    // per case, per invocation: delete chunks of overrides while the class persists
    for ci in 0..cases.len() {
        for ii in 0..cases[ci].invs.len() {
            let mut chunk = cases[ci].invs[ii].sched.overrides.len().max(1);
            while chunk >= 1 {
                let mut start = 0;
                while start < cases[ci].invs[ii].sched.overrides.len() {
                    if Instant::now() > deadline {
                        return;
                    }
                    let mut trial = cases.clone();
                    let ov = &mut trial[ci].invs[ii].sched.overrides;
                    let end = (start + chunk).min(ov.len());
                    ov.drain(start..end);
                    let ok = matches!(evaluate(bin, scratch, property, &trial), Ok((vs, _)) if has_class(&vs, class));
                    if ok {
                        *cases = trial;
                    } else {
                        start += chunk;
                    }
                }
                if chunk == 1 {
                    break;
                }
                chunk /= 2;
            }
        }
    }
}

pub fn minimise_and_write(bin: &Path, scratch: &Scratch, property: &str, found: &Found, verif: &Path, subdir: &str, budget_s: u64) -> Result<PathBuf, String> {
    let class = found.v.class.clone();
    let t0 = Instant::now();
    let deadline = t0 + std::time::Duration::from_secs(budget_s);
    let mut rng = Rng::new(simplan::fnv(class.as_bytes(), 99));
    // 0. the violation must recur as found (a run is a pure function of its plan)
    let mut cases = recurs(bin, scratch, property, &class, &found.cases, &mut rng, 0)
        .ok_or_else(|| "violation did not recur when re-executed with the same plan (nondeterminism?)".to_string())?;
    // 1. world: greedy, re-searching schedules after each candidate
    let mut progress = true;
    let mut rounds = 0;
    while progress && rounds < 6 && Instant::now() < deadline {
        progress = false;
        rounds += 1;
        for cand in candidates(&cases, found.v.inv_index) {
            if Instant::now() > deadline {
                break;
            }
            if let Some(c2) = recurs(bin, scratch, property, &class, &cand, &mut rng, 25) {
                cases = c2;
                progress = true;
                break;
            }
        }
    }
    // 2. schedule: record the decision lists, then ddmin the overrides
    let (_, recs) = evaluate(bin, scratch, property, &cases)?;
    let mut replay_cases: Vec<Case> = cases.iter().zip(recs.iter()).map(|(c, r)| to_replay(c, r)).collect();
    match evaluate(bin, scratch, property, &replay_cases) {
        Ok((vs, _)) if has_class(&vs, &class) => {}
        Ok((vs, _)) => {
            return Err(format!(
                "forced schedule does not reproduce class {class}; got {:?}",
                vs.iter().map(|v| v.class.clone()).collect::<Vec<_>>()
            ))
        }
        Err(e) => return Err(e),
    }
    ddmin_overrides(bin, scratch, property, &class, &mut replay_cases, deadline);
    let (vs, _) = evaluate(bin, scratch, property, &replay_cases)?;
    let detail = vs.iter().find(|v| v.class == class).map(|v| v.detail.clone()).unwrap_or_else(|| found.v.detail.clone());
    let rf = ReplayFile {
        property: property.to_string(),
        class: class.clone(),
        detail,
        note: format!(
            "found at case index {}; minimised in {:.1}s; schedule = non-preemptive default + {} override(s)",
            found.case_index,
            t0.elapsed().as_secs_f64(),
            replay_cases.iter().flat_map(|c| c.invs.iter()).map(|i| i.sched.overrides.len()).sum::<usize>()
        ),
        cases: replay_cases,
    };
    let dir = verif.join(subdir);
    std::fs::create_dir_all(&dir).map_err(|e| e.to_string())?;
    let h = simplan::fnv(class.as_bytes(), 5) & 0xffff_ffff;
    let path = dir.join(format!("{property}-{h:08x}.json"));
    std::fs::write(&path, serde_json::to_vec_pretty(&rf).map_err(|e| e.to_string())?).map_err(|e| e.to_string())?;
    // 3. confirm in a fresh process
    let exe = std::env::current_exe().map_err(|e| e.to_string())?;
    let out = std::process::Command::new(exe)
        .arg("check")
        .arg(property)
        .arg("--replay")
        .arg(&path)
        .env("STYLUA_SIM_BIN", bin)
        .output()
        .map_err(|e| e.to_string())?;
    if out.status.code() != Some(1) {
        return Err(format!(
            "fresh-process replay of {} exited {:?}: {}",
            path.display(),
            out.status.code(),
            String::from_utf8_lossy(&out.stdout)
        ));
    }
    Ok(path)
}

pub fn cmd_replay(bin: &Path, id: &str, path: &str) -> i32 {
    let text = match std::fs::read_to_string(path) {
        Ok(t) => t,
        Err(e) => {
            eprintln!("HARNESS: cannot read {path}: {e}");
            return 2;
        }
    };
    let rf: ReplayFile = match serde_json::from_str(&text) {
        Ok(r) => r,
        Err(e) => {
            eprintln!("HARNESS: {path} is not a replay file: {e}");
            return 2;
        }
    };
    let property = if id.is_empty() { rf.property.clone() } else { id.to_string() };
    let scratch = Scratch::new("replay");
    match evaluate(bin, &scratch, &property, &rf.cases) {
        Err(e) => {
            eprintln!("HARNESS: {e}");
            2
        }
        Ok((vs, recs)) => {
            for (ci, r) in recs.iter().enumerate() {
                for (ii, rec) in r.iter().enumerate() {
                    println!(
                        "case {ci} invocation {ii}: argv {:?} -> exit {} (model {}), {} steps",
                        rec.inv.opts.to_argv(),
                        rec.run.status,
                        rec.expected.status,
                        rec.run.trace.steps
                    );
                    if std::env::var("DRIVER_DUMP_TRACE").is_ok() {
                        println!("--- trace\n{}--- stdout\n{}--- stderr\n{}---", rec.run.trace.raw, String::from_utf8_lossy(&rec.run.stdout), String::from_utf8_lossy(&rec.run.stderr));
                    }
                }
            }
            if let Some(v) = vs.iter().find(|v| v.class == rf.class) {
                println!("VIOLATION property={} replay={}", property, path);
                println!("  class: {}", v.class);
                println!("  detail: {}", v.detail);
                1
            } else if !vs.is_empty() {
                println!("replay produced other violation classes: {:?}", vs.iter().map(|v| &v.class).collect::<Vec<_>>());
                println!("VIOLATION property={} replay={}", property, path);
                1
            } else {
                println!("replay of {} ({}) did not reproduce: property holds on this input and schedule", path, rf.class);
                0
            }
        }
    }
}

#[allow(dead_code)]
pub fn unused(_: &check::CaseOutcome) {}
