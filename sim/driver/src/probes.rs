//! "This rare condition was hit" probes, computed from the trace of one run.
use crate::exec::RunResult;
use std::collections::BTreeMap;

pub const ALL: &[&str] = &[
    "status_window",
    "status_decrease",
    "exit_mid_write",
    "exit_jobs_in_flight",
    "same_path_overlap",
    "panic_respawn",
    "retry_paths",
    "worker_error_and_diff",
    "walker_error_while_workers_busy",
    "abort_while_workers_busy",
    "status_error_then_diff",
    "status_diff_then_error",
];

/// Probes that say something about the given property (the others are reported too, but a zero
/// there is not a blind spot).
pub fn relevant(property: &str) -> &'static [&'static str] {
    match property {
        "C13" => &["worker_error_and_diff", "walker_error_while_workers_busy", "status_error_then_diff", "status_diff_then_error"],
        "C14" => &["panic_respawn", "abort_while_workers_busy", "walker_error_while_workers_busy"],
        "C17" => &["retry_paths"],
        "C19" => &[
            "worker_error_and_diff",
            "walker_error_while_workers_busy",
            "panic_respawn",
            "abort_while_workers_busy",
            "status_error_then_diff",
            "status_diff_then_error",
        ],
        "C20" => &["abort_while_workers_busy"],
        _ => &[],
    }
}

fn atomic_of(label: &str) -> Option<(&str, &str)> {
    // "atomic.i32#4.store 2" -> ("atomic.i32#4", "store 2")
    let rest = label.strip_prefix("atomic.")?;
    let dot = rest.find('.')?;
    Some((&label[..7 + dot], &rest[dot + 1..]))
}

pub fn probes(run: &RunResult) -> BTreeMap<&'static str, u64> {
    let mut out: BTreeMap<&'static str, u64> = BTreeMap::new();
    let t = &run.trace;
    // status_window: A loads cell, B stores to the same cell, A then stores to it
    // status_decrease: a store/result that lowers an i32 cell that held 2
    let mut last_load: BTreeMap<(String, usize), usize> = BTreeMap::new(); // (cell, tid) -> event index
    let mut value: BTreeMap<String, i64> = BTreeMap::new();
    for (i, e) in t.events.iter().enumerate() {
        if let Some((cell, op)) = atomic_of(&e.label) {
            if !cell.starts_with("atomic.i32") {
                continue;
            }
            if op.starts_with("load") {
                last_load.insert((cell.to_string(), e.tid), i);
            } else if op.starts_with("store") {
                if let Some(&li) = last_load.get(&(cell.to_string(), e.tid)) {
                    let interfered = t.events[li + 1..i].iter().any(|x| {
                        x.tid != e.tid && atomic_of(&x.label).map(|(c, o)| c == cell && !o.starts_with("load")).unwrap_or(false)
                    });
                    if interfered {
                        *out.entry("status_window").or_insert(0) += 1;
                    }
                }
                let v: i64 = op.split_whitespace().nth(1).and_then(|s| s.parse().ok()).unwrap_or(0);
                if let Some(&old) = value.get(cell) {
                    if v < old {
                        *out.entry("status_decrease").or_insert(0) += 1;
                    }
                }
                value.insert(cell.to_string(), v);
            }
        }
    }
    // both orders of "an error sets the status cell to 2" and "a diff raises it to 1" by
    // different tasks
    {
        let mut first_two: BTreeMap<String, (usize, usize)> = BTreeMap::new(); // cell -> (index, tid) of first value-2 write
        let mut first_one: BTreeMap<String, (usize, usize)> = BTreeMap::new();
        for (i, e) in t.events.iter().enumerate() {
            if let Some((cell, op)) = atomic_of(&e.label) {
                if !cell.starts_with("atomic.i32") || op.starts_with("load") {
                    continue;
                }
                let val: i64 = op.split_whitespace().last().and_then(|s| s.parse().ok()).unwrap_or(-1);
                if val == 2 {
                    first_two.entry(cell.to_string()).or_insert((i, e.tid));
                } else if val == 1 {
                    first_one.entry(cell.to_string()).or_insert((i, e.tid));
                }
            }
        }
        for (cell, (i2, t2)) in &first_two {
            if let Some((i1, t1)) = first_one.get(cell) {
                if t1 != t2 {
                    if i2 < i1 {
                        out.insert("status_error_then_diff", 1);
                    } else {
                        out.insert("status_diff_then_error", 1);
                    }
                }
            }
        }
    }
    // at exit: what were the other tasks doing?
    if t.exit.is_some() {
        let mut mid_write = false;
        let mut in_flight = false;
        for task in &t.tasks {
            if task.tid == 0 || task.status == "finished" {
                continue;
            }
            let p = task.pending.as_str();
            if p.starts_with("fs.write.data") || p.starts_with("fs.write.close") {
                mid_write = true;
            }
            if p.starts_with("fs.") || p.starts_with("lib.format_code") || p.starts_with("chan.send") {
                in_flight = true;
            }
        }
        if mid_write {
            out.insert("exit_mid_write", 1);
        }
        if in_flight {
            out.insert("exit_jobs_in_flight", 1);
        }
    }
    // same_path_overlap: fs events on one path by two tasks, interleaved
    let mut by_path: BTreeMap<&str, Vec<usize>> = BTreeMap::new();
    for e in &t.events {
        if e.label.starts_with("fs.") {
            if let Some(p) = e.label.split_whitespace().nth(1) {
                by_path.entry(p).or_default().push(e.tid);
            }
        }
    }
    for tids in by_path.values() {
        let mut distinct = tids.clone();
        distinct.sort();
        distinct.dedup();
        if distinct.len() >= 2 {
            *out.entry("same_path_overlap").or_insert(0) += 1;
        }
    }
    if !t.panics.is_empty() && t.events.iter().any(|e| e.tid != 0 && e.label.starts_with("thread.spawn")) {
        out.insert("panic_respawn", 1);
    }
    if t.fired.iter().any(|f| f.kind == "EINTR" || f.kind == "short") {
        out.insert("retry_paths", 1);
    }
    let stderr = crate::oracle::strip_ansi(&String::from_utf8_lossy(&run.stderr));
    let has_err = crate::oracle::has_error_record(&run.stderr);
    if has_err && !run.stdout.is_empty() {
        out.insert("worker_error_and_diff", 1);
    }
    // walker logged "no file or directory" (main stores 2) while some worker had not finished
    if stderr.contains("no file or directory found") {
        let main_store = t.events.iter().position(|e| e.tid == 0 && e.label.contains(".store 2"));
        if let Some(ms) = main_store {
            if t.events[ms..].iter().any(|e| e.tid != 0 && (e.label.starts_with("lib.format_code") || e.label.starts_with("fs.read"))) {
                out.insert("walker_error_while_workers_busy", 1);
            }
        }
    }
    // the walk stopped on a configuration error after at least one job had been dispatched
    if (stderr.contains("Config file not in correct format") || stderr.contains("Failed to read config"))
        && t.events.iter().any(|e| e.tid != 0 && (e.label.starts_with("fs.read") || e.label.starts_with("lib.format_code")))
    {
        out.insert("abort_while_workers_busy", 1);
    }
    out
}
