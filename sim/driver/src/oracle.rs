//! Oracles: compare one executed invocation with the reference model's verdict.
use crate::exec::RunResult;
use crate::model::{Expected, FileExpect};
use crate::world::{world_rel, Invocation, World};
use simplan::{EXIT_DEADLOCK, EXIT_HARNESS, EXIT_REPLAY_DIVERGED, EXIT_STEP_BOUND};
use std::collections::{BTreeMap, BTreeSet};

#[derive(Clone, Debug, PartialEq)]
pub struct Violation {
    pub property: String,
    /// the violation's signature: invariant / site / qualifiers — what known findings match on
    pub class: String,
    pub detail: String,
    pub inv_index: usize,
}

/// Exit codes the simulator itself produces (deadlock, step bound, replay divergence, harness).
/// Everything else — including 101, a panic on the main thread — is the program's own status.
pub fn sim_reserved(status: i32) -> bool {
    matches!(status, EXIT_DEADLOCK | EXIT_STEP_BOUND | EXIT_REPLAY_DIVERGED | EXIT_HARNESS)
}

/// Errors of the harness itself (never a property violation).
pub fn harness_problem(run: &RunResult) -> Option<String> {
    match run.status {
        EXIT_HARNESS => Some(format!("simrt harness error: {}", String::from_utf8_lossy(&run.stderr))),
        EXIT_REPLAY_DIVERGED => Some(format!("replay diverged: {:?}", run.trace.exit)),
        -1 => Some("simulated process killed by a signal".into()),
        -2 => Some("wall-clock timeout without a simulated deadlock".into()),
        _ => {
            if run.trace.raw.is_empty() {
                Some(format!("no trace written (exit {})", run.status))
            } else {
                None
            }
        }
    }
}

pub fn liveness(property: &str, run: &RunResult, idx: usize) -> Vec<Violation> {
    let mut v = Vec::new();
    if run.status == EXIT_DEADLOCK {
        v.push(Violation {
            property: property.into(),
            class: "liveness/deadlock".into(),
            detail: format!("{:?}", run.trace.exit),
            inv_index: idx,
        });
    }
    if run.status == EXIT_STEP_BOUND {
        v.push(Violation {
            property: property.into(),
            class: "liveness/step-bound".into(),
            detail: "no exit within 200000 scheduler steps".into(),
            inv_index: idx,
        });
    }
    v
}

/// Remove ANSI SGR sequences (`--color always`).
pub fn strip_ansi(s: &str) -> String {
    let mut out = String::with_capacity(s.len());
    let mut it = s.chars().peekable();
    while let Some(c) = it.next() {
        if c == '\u{1b}' && it.peek() == Some(&'[') {
            it.next();
            for d in it.by_ref() {
                if d.is_ascii_alphabetic() {
                    break;
                }
            }
        } else {
            out.push(c);
        }
    }
    out
}

pub fn has_error_record(stderr: &[u8]) -> bool {
    let s = strip_ansi(&String::from_utf8_lossy(stderr));
    s.lines().any(|l| {
        l.starts_with("error:")
            || (l.starts_with('{') && l.contains("\"type\":\"error\""))
            || l.contains("panicked at")
            || (l.starts_with('[') && l.contains("\"type\":\"parse_error\""))
    })
}

/// Files reported as differing on stdout, as world-relative paths (or just a count for the
/// unified format, which carries no file names).
pub enum Reported {
    Files(Vec<String>),
    Count(usize),
    Malformed(String),
}

pub fn parse_reported(inv: &Invocation, world: &World, stdout: &[u8]) -> Reported {
    let fmt = inv.opts.output_format.as_deref().unwrap_or("standard").to_ascii_lowercase();
    let text = strip_ansi(&String::from_utf8_lossy(stdout));
    let norm = |p: &str| -> String {
        if p == "stdin" {
            return "stdin".to_string();
        }
        world_rel(&world.cwd, p).unwrap_or_else(|| p.to_string())
    };
    match fmt.as_str() {
        "standard" => Reported::Files(
            text.lines()
                .filter_map(|l| l.strip_prefix("Diff in ").and_then(|r| r.strip_suffix(':')))
                .map(norm)
                .collect(),
        ),
        "unified" => {
            // a file header is `--- x` directly followed by `+++ y` (a removed Lua comment line
            // also starts with `--- `)
            let ls: Vec<&str> = text.lines().collect();
            Reported::Count((0..ls.len()).filter(|&i| ls[i].starts_with("--- ") && ls.get(i + 1).map(|n| n.starts_with("+++ ")).unwrap_or(false)).count())
        }
        "json" => {
            let mut out = Vec::new();
            for l in text.lines() {
                if l.trim().is_empty() {
                    continue;
                }
                match serde_json::from_str::<serde_json::Value>(l) {
                    Ok(v) => match v.get("file").and_then(|f| f.as_str()) {
                        Some(f) => out.push(norm(f)),
                        None => return Reported::Malformed(format!("json record without file: {l}")),
                    },
                    Err(e) => return Reported::Malformed(format!("stdout line is not JSON ({e}): {l}")),
                }
            }
            Reported::Files(out)
        }
        "summary" => {
            let lines: Vec<&str> = text.lines().collect();
            if lines.len() < 2 {
                return Reported::Malformed(format!("summary output has {} lines", lines.len()));
            }
            if !lines[0].contains("Checking formatting") {
                return Reported::Malformed(format!("summary header missing: {:?}", lines[0]));
            }
            let last = lines[lines.len() - 1];
            let files: Vec<String> = lines[1..lines.len() - 1].iter().map(|l| norm(l)).collect();
            let ok = if files.is_empty() {
                last.contains("All files are correctly formatted")
            } else {
                last.contains(&format!("in {} file", files.len()))
            };
            if !ok {
                return Reported::Malformed(format!("summary footer {:?} does not match {} listed files", last, files.len()));
            }
            Reported::Files(files)
        }
        other => Reported::Malformed(format!("unknown format {other}")),
    }
}

fn is_config_file(p: &str) -> bool {
    p.ends_with("stylua.toml") || p.ends_with(".toml")
}

/// (path -> number of fs.read events), config files excluded.
pub fn worker_reads(run: &RunResult) -> BTreeMap<String, usize> {
    let mut m = BTreeMap::new();
    for e in &run.trace.events {
        if let Some(p) = e.label.strip_prefix("fs.read $W/") {
            if !is_config_file(p) {
                *m.entry(p.to_string()).or_insert(0) += 1;
            }
        }
    }
    m
}

/// (path -> number of times its text was handed to the formatter)
pub fn format_calls(run: &RunResult) -> BTreeMap<String, usize> {
    let mut m = BTreeMap::new();
    for e in &run.trace.events {
        if let Some(p) = e.label.strip_prefix("lib.format_code $W/") {
            *m.entry(p.to_string()).or_insert(0) += 1;
        }
    }
    m
}

/// (path -> set of tasks that read it)
pub fn readers(run: &RunResult) -> BTreeMap<String, BTreeSet<usize>> {
    let mut m: BTreeMap<String, BTreeSet<usize>> = BTreeMap::new();
    for e in &run.trace.events {
        if let Some(p) = e.label.strip_prefix("fs.read $W/") {
            if !is_config_file(p) {
                m.entry(p.to_string()).or_default().insert(e.tid);
            }
        }
    }
    m
}

pub fn write_opens(run: &RunResult) -> BTreeMap<String, usize> {
    let mut m = BTreeMap::new();
    for e in &run.trace.events {
        if let Some(p) = e.label.strip_prefix("fs.write.open $W/") {
            *m.entry(p.to_string()).or_insert(0) += 1;
        }
    }
    m
}

/// (path -> number of data writes to it)
pub fn data_writes(run: &RunResult) -> BTreeMap<String, usize> {
    let mut m = BTreeMap::new();
    for e in &run.trace.events {
        if let Some(p) = e.label.strip_prefix("fs.write.data $W/") {
            *m.entry(p.to_string()).or_insert(0) += 1;
        }
    }
    m
}

pub fn mutating_events(run: &RunResult) -> Vec<String> {
    run.trace
        .events
        .iter()
        .filter(|e| {
            // opening a file is not a mutation by itself (a truncating open shows in the snapshot)
            ["fs.write.data", "fs.remove", "fs.rename", "fs.copy", "fs.create_dir", "fs.hard_link"]
                .iter()
                .any(|p| e.label.starts_with(p))
        })
        .map(|e| e.label.clone())
        .collect()
}

/// Differences between the tree before and after, as (path, kind).
pub fn tree_changes(run: &RunResult) -> Vec<(String, &'static str)> {
    let mut out = Vec::new();
    for (p, a) in &run.after.files {
        match run.before.files.get(p) {
            None => out.push((p.clone(), "created")),
            Some(b) => {
                if b.bytes != a.bytes {
                    out.push((p.clone(), "modified"))
                } else if b.mtime_ns != a.mtime_ns || b.ino != a.ino {
                    out.push((p.clone(), "touched"))
                }
            }
        }
    }
    for p in run.before.files.keys() {
        if !run.after.files.contains_key(p) {
            out.push((p.clone(), "removed"));
        }
    }
    if run.before.dirs != run.after.dirs {
        out.push(("<directories>".into(), "dirs-changed"));
    }
    if run.before.links != run.after.links {
        out.push(("<symlinks>".into(), "links-changed"));
    }
    out
}

fn v(property: &str, class: String, detail: String, idx: usize) -> Violation {
    Violation { property: property.into(), class, detail, inv_index: idx }
}

fn fmt_name(inv: &Invocation) -> String {
    inv.opts.output_format.as_deref().unwrap_or("standard").to_ascii_lowercase()
}

fn kinds_of_failure(ex: &Expected) -> String {
    let mut kinds: BTreeSet<&str> = BTreeSet::new();
    if !ex.selection.missing_args.is_empty() {
        kinds.insert("missing-path");
    }
    if !ex.selection.unreadable_dirs.is_empty() {
        kinds.insert("unreadable-directory");
    }
    for fe in ex.per_file.values().chain(ex.stdin_expect.iter()) {
        match fe {
            FileExpect::Fail(r) => {
                kinds.insert(if r.contains("UTF-8") {
                    "non-utf8"
                } else if r.contains("read fault") {
                    "unreadable"
                } else if r.contains("read-only") {
                    "read-only"
                } else if r.contains("injected crash") {
                    "crash"
                } else if r.contains("verification") {
                    "verify"
                } else {
                    "parse-error"
                });
            }
            FileExpect::ConfigError(_) => {
                kinds.insert("config-error");
            }
            FileExpect::WriteFailed => {
                kinds.insert("write-error");
            }
            _ => {}
        }
    }
    if ex.pre_abort.is_some() {
        kinds.insert("pre-abort");
    }
    kinds.into_iter().collect::<Vec<_>>().join("+")
}

/// Exit status against the model.  The class names what kinds of failure the world contained
/// and whether a diff was present — that is what distinguishes one status defect from another.
pub fn status_oracle(property: &str, inv: &Invocation, ex: &Expected, run: &RunResult, idx: usize) -> Vec<Violation> {
    if run.status == ex.status {
        return vec![];
    }
    let has_diff = !ex.differing.is_empty() || matches!(ex.stdin_expect, Some(FileExpect::Changed(_)));
    let class = format!(
        "status/expected-{}-got-{}/fmt-{}/{}{}{}",
        ex.status,
        run.status,
        fmt_name(inv),
        if inv.opts.check { "check" } else { "write" },
        if has_diff && inv.opts.check { "/with-diff" } else { "" },
        {
            let k = kinds_of_failure(ex);
            if k.is_empty() {
                String::new()
            } else {
                format!("/{k}")
            }
        }
    );
    vec![v(property, class, format!("model status {} observed {}", ex.status, run.status), idx)]
}

/// C13: nothing is written, created, removed or touched.
pub fn no_write_oracle(property: &str, run: &RunResult, idx: usize) -> Vec<Violation> {
    let mut out = Vec::new();
    let ch = tree_changes(run);
    if !ch.is_empty() {
        let kinds: BTreeSet<&str> = ch.iter().map(|c| c.1).collect();
        out.push(v(
            property,
            format!("no-write/tree-{}", kinds.into_iter().collect::<Vec<_>>().join("+")),
            format!("{:?}", ch),
            idx,
        ));
    }
    let ev = mutating_events(run);
    if !ev.is_empty() && out.is_empty() {
        out.push(v(property, "no-write/mutating-fs-call".into(), format!("{:?}", ev), idx));
    }
    out
}

/// C13: a diff is printed for precisely the files that differ.
pub fn report_oracle(property: &str, inv: &Invocation, world: &World, ex: &Expected, run: &RunResult, idx: usize) -> Vec<Violation> {
    let mut out = Vec::new();
    if ex.pre_abort.is_some() || ex.mid_abort {
        return out;
    }
    let mut expect: Vec<String> = ex.differing.iter().cloned().collect();
    if inv.opts.check {
        if let Some(FileExpect::Changed(_)) = ex.stdin_expect {
            expect.push("stdin".into());
        }
    }
    expect.sort();
    match parse_reported(inv, world, &run.stdout) {
        Reported::Malformed(m) => out.push(v(property, format!("report/malformed/fmt-{}", fmt_name(inv)), m, idx)),
        Reported::Count(n) => {
            if n != expect.len() {
                out.push(v(
                    property,
                    format!("report/count/fmt-{}", fmt_name(inv)),
                    format!("{} diffs printed, {} files differ", n, expect.len()),
                    idx,
                ));
            }
        }
        Reported::Files(mut got) => {
            got.sort();
            if got != expect {
                let gs: BTreeSet<&String> = got.iter().collect();
                let es: BTreeSet<&String> = expect.iter().collect();
                let kind = if gs == es {
                    "duplicate"
                } else if gs.is_subset(&es) {
                    "missing"
                } else if es.is_subset(&gs) {
                    "extra"
                } else {
                    "mismatch"
                };
                out.push(v(
                    property,
                    format!("report/{kind}/fmt-{}", fmt_name(inv)),
                    format!("reported {:?}, model says {:?}", got, expect),
                    idx,
                ));
            }
        }
    }
    out
}

fn describe_content(orig: &[u8], expected: Option<&[u8]>, got: &[u8]) -> &'static str {
    if got.is_empty() && !orig.is_empty() {
        "empty"
    } else if expected.map(|e| e.len() > got.len() && e.starts_with(got)).unwrap_or(false) {
        "prefix-of-formatted"
    } else if orig.len() > got.len() && orig.starts_with(got) {
        "prefix-of-original"
    } else {
        "other-content"
    }
}

/// Write-mode tree oracle (C14 / C15 / C16 share it; `property` and `prefix` say who asks).
/// Every file must hold its original bytes or its complete formatted text, as the model says.
pub fn tree_oracle(property: &str, prefix: &str, inv: &Invocation, ex: &Expected, run: &RunResult, idx: usize) -> Vec<Violation> {
    let mut out = Vec::new();
    let writes = data_writes(run);
    let abort = ex.mid_abort || ex.pre_abort.is_some();
    for (p, before) in &run.before.files {
        let Some(after) = run.after.files.get(p) else {
            out.push(v(property, format!("{prefix}/file-removed"), p.clone(), idx));
            continue;
        };
        let fe = if ex.pre_abort.is_some() { None } else { ex.per_file.get(p) };
        let unchanged = after.bytes == before.bytes;
        let untouched = unchanged && after.mtime_ns == before.mtime_ns && after.ino == before.ino;
        match fe {
            None => {
                if !unchanged {
                    let sel = if ex.selection.kf7_candidates.contains(p) {
                        "unselected-file-modified/user-glob-whitelist-overrides-ignore-or-hidden"
                    } else if ex.selection.kf8_candidates.contains(p) {
                        "unselected-file-modified/respect-ignores-explicit-path-non-nearest-ignore-file"
                    } else if ex.selection.kf9_candidates.contains(p) {
                        "unselected-file-modified/slash-pattern-in-ignore-file-above-directory-argument"
                    } else {
                        "unselected-file-modified"
                    };
                    out.push(v(
                        property,
                        format!("{prefix}/{sel}/{}", describe_content(&before.bytes, None, &after.bytes)),
                        p.clone(),
                        idx,
                    ));
                } else if !untouched {
                    let kf = if ex.selection.kf7_candidates.contains(p) {
                        "/user-glob-whitelist-overrides-ignore-or-hidden"
                    } else if ex.selection.kf8_candidates.contains(p) {
                        "/respect-ignores-explicit-path-non-nearest-ignore-file"
                    } else if ex.selection.kf9_candidates.contains(p) {
                        "/slash-pattern-in-ignore-file-above-directory-argument"
                    } else {
                        ""
                    };
                    out.push(v(property, format!("{prefix}/unselected-file-touched{kf}"), p.clone(), idx));
                }
            }
            Some(FileExpect::Fail(r)) | Some(FileExpect::ConfigError(r)) => {
                if !unchanged {
                    out.push(v(
                        property,
                        format!(
                            "{prefix}/failing-file-modified/{}",
                            describe_content(&before.bytes, None, &after.bytes)
                        ),
                        format!("{p}: {r}"),
                        idx,
                    ));
                } else if !untouched {
                    out.push(v(property, format!("{prefix}/failing-file-touched"), format!("{p}: {r}"), idx));
                }
            }
            Some(FileExpect::WriteFailed) => {
                // bytes unconstrained; the status oracle demands that the failure is reported
            }
            Some(FileExpect::Same) => {
                if !unchanged {
                    out.push(v(
                        property,
                        format!("{prefix}/formatted-file-modified/{}", describe_content(&before.bytes, None, &after.bytes)),
                        p.clone(),
                        idx,
                    ));
                } else if !untouched || writes.contains_key(p) {
                    out.push(v(property, format!("{prefix}/formatted-file-rewritten"), p.clone(), idx));
                }
            }
            Some(FileExpect::Changed(exp)) => {
                if inv.opts.check {
                    if !untouched {
                        out.push(v(property, format!("{prefix}/check-mode-modified"), p.clone(), idx));
                    }
                } else if after.bytes == *exp {
                    // fine
                } else if unchanged {
                    if !abort {
                        out.push(v(property, format!("{prefix}/selected-file-not-formatted"), p.clone(), idx));
                    }
                } else {
                    let d = describe_content(&before.bytes, Some(exp), &after.bytes);
                    out.push(v(
                        property,
                        format!("{prefix}/file-not-whole/{d}{}", if abort { "/after-abort" } else { "" }),
                        format!("{p}: {} bytes, original {} / formatted {}", after.bytes.len(), before.bytes.len(), exp.len()),
                        idx,
                    ));
                }
            }
        }
    }
    // New entries: only check mode promises that nothing is created (C13 / C17 own that, through
    // no_write_oracle).  In write mode the properties speak about the files that exist — a run
    // that leaves an extra file behind does not break them — but nothing may disappear.
    if inv.opts.check {
        for p in run.after.files.keys() {
            if !run.before.files.contains_key(p) {
                out.push(v(property, format!("{prefix}/file-created"), p.clone(), idx));
            }
        }
    }
    if run.before.dirs.iter().any(|d| !run.after.dirs.contains(d)) {
        out.push(v(property, format!("{prefix}/directory-removed"), String::new(), idx));
    }
    if run.before.links != run.after.links {
        out.push(v(property, format!("{prefix}/symlinks-changed"), format!("{:?} -> {:?}", run.before.links, run.after.links), idx));
    }
    out
}

/// Each target is processed at most once: handed to the formatter at most once, read by at
/// most one task, opened for writing at most once.  (Two reads by one task are not two
/// processings — an implementation may sniff a file before formatting it.)
pub fn once_oracle(property: &str, prefix: &str, run: &RunResult, idx: usize) -> Vec<Violation> {
    let mut out = Vec::new();
    for (p, n) in format_calls(run) {
        if n > 1 {
            out.push(v(property, format!("{prefix}/processed-more-than-once"), format!("{p}: formatted {n} times"), idx));
        }
    }
    for (p, t) in readers(run) {
        if t.len() > 1 && format_calls(run).get(&p).cloned().unwrap_or(0) <= 1 {
            out.push(v(property, format!("{prefix}/processed-more-than-once"), format!("{p}: read by tasks {:?}", t), idx));
        }
    }
    for (p, n) in write_opens(run) {
        if n > 1 {
            out.push(v(property, format!("{prefix}/written-more-than-once"), format!("{p}: {n} opens"), idx));
        }
    }
    out
}

/// C16: the set of processed files is exactly the model's selection.
pub fn selection_oracle(property: &str, inv: &Invocation, world: &World, ex: &Expected, run: &RunResult, idx: usize) -> Vec<Violation> {
    let mut out = Vec::new();
    if ex.pre_abort.is_some() || ex.mid_abort {
        return out;
    }
    let reads = worker_reads(run);
    let sel = &ex.selection.selected;
    let mut extra_kf7 = Vec::new();
    let mut extra_kf8 = Vec::new();
    let mut extra_kf9 = Vec::new();
    let mut extra = Vec::new();
    for p in reads.keys() {
        if !sel.contains(p) {
            if ex.selection.kf7_candidates.contains(p) {
                extra_kf7.push(p.clone());
            } else if ex.selection.kf8_candidates.contains(p) {
                extra_kf8.push(p.clone());
            } else if ex.selection.kf9_candidates.contains(p) {
                extra_kf9.push(p.clone());
            } else {
                extra.push(p.clone());
            }
        }
    }
    // a file reported as differing that the model did not select is extra too (covers
    // implementations that do not read through the fs seam)
    if inv.opts.check {
        if let Reported::Files(got) = parse_reported(inv, world, &run.stdout) {
            for g in got {
                if g != "stdin" && !sel.contains(&g) && !extra.contains(&g) && !extra_kf7.contains(&g) && !extra_kf8.contains(&g) && !extra_kf9.contains(&g) {
                    if ex.selection.kf7_candidates.contains(&g) {
                        extra_kf7.push(g);
                    } else if ex.selection.kf8_candidates.contains(&g) {
                        extra_kf8.push(g);
                    } else if ex.selection.kf9_candidates.contains(&g) {
                        extra_kf9.push(g);
                    } else {
                        extra.push(g);
                    }
                }
            }
        }
    }
    if !extra.is_empty() {
        out.push(v(property, "select/extra-file-processed".into(), format!("{:?}", extra), idx));
    }
    if !extra_kf7.is_empty() {
        out.push(v(
            property,
            "select/extra-file-processed/user-glob-whitelist-overrides-ignore-or-hidden".into(),
            format!("{:?} globs {:?}", extra_kf7, inv.opts.globs),
            idx,
        ));
    }
    if !extra_kf8.is_empty() {
        out.push(v(
            property,
            "select/extra-file-processed/respect-ignores-explicit-path-non-nearest-ignore-file".into(),
            format!("{:?}", extra_kf8),
            idx,
        ));
    }
    if !extra_kf9.is_empty() {
        out.push(v(
            property,
            "select/extra-file-processed/slash-pattern-in-ignore-file-above-directory-argument".into(),
            format!("{:?}", extra_kf9),
            idx,
        ));
    }
    // missing: selected but never read — only when the seam saw reads at all, or the
    // observable outcome confirms it
    let mut missing = Vec::new();
    for p in sel {
        if !reads.contains_key(p) {
            let real = ex.real_of.get(p).cloned().unwrap_or_else(|| p.clone());
            let confirmed = match ex.expect_for(p) {
                Some(FileExpect::Changed(exp)) => {
                    if inv.opts.check {
                        match parse_reported(inv, world, &run.stdout) {
                            Reported::Files(got) => !got.contains(p),
                            _ => !reads.is_empty(),
                        }
                    } else {
                        run.after.files.get(&real).map(|a| a.bytes != *exp).unwrap_or(true)
                    }
                }
                _ => !reads.is_empty(),
            };
            if confirmed {
                missing.push(p.clone());
            }
        }
    }
    let (missing_kf8, missing): (Vec<String>, Vec<String>) = missing.into_iter().partition(|p| ex.selection.kf8_candidates.contains(p));
    if !missing_kf8.is_empty() {
        out.push(v(
            property,
            "select/selected-file-not-processed/respect-ignores-explicit-path-non-nearest-ignore-file".into(),
            format!("{:?}", missing_kf8),
            idx,
        ));
    }
    let (missing_kf9, missing): (Vec<String>, Vec<String>) = missing.into_iter().partition(|p| ex.selection.kf9_candidates.contains(p));
    if !missing.is_empty() {
        out.push(v(property, "select/selected-file-not-processed".into(), format!("{:?}", missing), idx));
    }
    if !missing_kf9.is_empty() {
        out.push(v(
            property,
            "select/selected-file-not-processed/slash-pattern-in-ignore-file-above-directory-argument".into(),
            format!("{:?}", missing_kf9),
            idx,
        ));
    }
    out
}

/// C19 (b): an error that was reported is never masked — the status is 2.
pub fn masking_oracle(property: &str, inv: &Invocation, run: &RunResult, idx: usize) -> Vec<Violation> {
    if has_error_record(&run.stderr) && run.status != 2 && !sim_reserved(run.status) {
        return vec![v(
            property,
            format!("masking/error-reported-but-status-{}/fmt-{}", run.status, fmt_name(inv)),
            String::from_utf8_lossy(&run.stderr).lines().next().unwrap_or("").to_string(),
            idx,
        )];
    }
    vec![]
}

/// C17: stdin mode.
pub fn stdin_oracle(property: &str, inv: &Invocation, ex: &Expected, run: &RunResult, idx: usize, kf8: bool) -> Vec<Violation> {
    let mut out = Vec::new();
    let fired: BTreeSet<String> = run.trace.fired.iter().map(|f| format!("{}:{}", f.site, f.kind)).collect();
    let stdin_eio = fired.contains("stdin.read:EIO");
    let epipe = fired.contains("stdout.write:EPIPE");
    if fired.contains("stdout.write:EAGAIN") {
        // give up with an error, or carry on from where the write stopped: never anything else
        let ok_fail = run.status == 2;
        let ok_full = run.status == ex.status && (inv.opts.check || ex.stdin_stdout.as_deref().map(|e| e == &run.stdout[..]).unwrap_or(run.stdout.is_empty()));
        if !(ok_fail || ok_full) {
            out.push(v(
                property,
                "stdin/stdout-would-block-mishandled".into(),
                format!("status {} stdout {} bytes (expected {:?} bytes)", run.status, run.stdout.len(), ex.stdin_stdout.as_ref().map(|e| e.len())),
                idx,
            ));
        }
        return out;
    }
    let suffix = if kf8 { "/respect-ignores-stdin-filepath-non-nearest-ignore-file" } else { "" };
    if stdin_eio {
        // may fail, never wrong data
        let ok_fail = run.status == 2 && (inv.opts.check || run.stdout.is_empty());
        let ok_full = run.status == ex.status && ex.stdin_stdout.as_deref().map(|e| e == &run.stdout[..]).unwrap_or(run.stdout.is_empty());
        if !(ok_fail || ok_full) {
            out.push(v(
                property,
                "stdin/read-error-not-reported".into(),
                format!("status {} stdout {} bytes", run.status, run.stdout.len()),
                idx,
            ));
        }
        return out;
    }
    if epipe {
        if run.status != 2 {
            out.push(v(property, "stdin/stdout-error-not-reported".into(), format!("status {}", run.status), idx));
        }
        return out;
    }
    if ex.pre_abort.is_some() || ex.mid_abort {
        if run.status != 2 {
            out.push(v(property, format!("stdin/status-after-config-error{suffix}"), format!("status {}", run.status), idx));
        }
        if !inv.opts.check && !run.stdout.is_empty() {
            out.push(v(property, "stdin/output-after-config-error".into(), format!("{} bytes", run.stdout.len()), idx));
        }
        return out;
    }
    if !inv.opts.check {
        let want: &[u8] = ex.stdin_stdout.as_deref().unwrap_or(&[]);
        if run.stdout != want {
            let kind = if run.stdout.is_empty() {
                "nothing-printed"
            } else if want.is_empty() {
                "output-on-failure"
            } else if want.starts_with(&run.stdout) {
                "truncated"
            } else if inv.stdin.as_deref() == Some(&run.stdout[..]) {
                "input-passed-through"
            } else {
                "wrong-text"
            };
            out.push(v(
                property,
                format!("stdin/stdout-{kind}{suffix}"),
                format!("got {} bytes, want {} bytes", run.stdout.len(), want.len()),
                idx,
            ));
        }
    }
    out.extend(status_oracle(property, inv, ex, run, idx).into_iter().map(|mut x| {
        x.class = format!("stdin/{}{suffix}", x.class);
        x
    }));
    out
}
