//! Statistics, evidence files and the known-findings list.
use crate::check::CaseOutcome;
use crate::model::FileExpect;
use crate::world::Case;
use serde::Deserialize;
use serde_json::{json, Value};
use std::collections::{BTreeMap, BTreeSet};
use std::path::Path;

#[derive(Deserialize, Clone, Debug)]
pub struct Known {
    pub property: String,
    /// substring of the violation class that identifies the finding
    pub class: String,
    /// open | fixed
    pub status: String,
    #[serde(default)]
    pub commit: String,
    pub what: String,
    /// a recorded minimal input exhibiting the finding (path relative to /verif), replayed at
    /// the start of every run so that the KNOWN-FINDING line does not depend on the search
    #[serde(default)]
    pub replay: Option<String>,
}

pub fn load_known(verif: &Path) -> Vec<Known> {
    let p = verif.join("known_findings.json");
    match std::fs::read_to_string(&p) {
        Ok(t) => serde_json::from_str(&t).unwrap_or_else(|e| {
            eprintln!("HARNESS: {} does not parse: {e}", p.display());
            std::process::exit(2)
        }),
        Err(_) => Vec::new(),
    }
}

pub struct Stats {
    pub id: String,
    pub cases: u64,
    pub runs: u64,
    pub steps: u64,
    pub max_steps: u64,
    pub ctx: u64,
    pub real_choices: u64,
    pub strategies: BTreeMap<String, u64>,
    pub threads: BTreeMap<usize, u64>,
    pub faults_planned: BTreeMap<String, u64>,
    pub faults_fired: BTreeMap<String, u64>,
    pub probes: BTreeMap<String, u64>,
    pub families: BTreeMap<String, u64>,
    pub statuses: BTreeMap<i32, u64>,
    pub distinct: BTreeSet<(u64, u64)>,
    pub sigs: BTreeSet<u64>,
    pub nontrivial_runs: u64,
    pub samples: Vec<Value>,
    pub wall_s: f64,
    pub seed: u64,
    pub tier: String,
    pub jobs: usize,
    pub capped: bool,
    pub violations: u64,
    pub known_findings: Vec<String>,
    pub run_us: u64,
    pub sim_ns: u128,
    pub runs_with_sim_time: u64,
}

impl Stats {
    pub fn new(id: &str) -> Stats {
        Stats {
            id: id.to_string(),
            cases: 0,
            runs: 0,
            steps: 0,
            max_steps: 0,
            ctx: 0,
            real_choices: 0,
            strategies: BTreeMap::new(),
            threads: BTreeMap::new(),
            faults_planned: BTreeMap::new(),
            faults_fired: BTreeMap::new(),
            probes: BTreeMap::new(),
            families: BTreeMap::new(),
            statuses: BTreeMap::new(),
            distinct: BTreeSet::new(),
            sigs: BTreeSet::new(),
            nontrivial_runs: 0,
            samples: Vec::new(),
            wall_s: 0.0,
            seed: 0,
            tier: String::new(),
            jobs: 0,
            capped: false,
            violations: 0,
            known_findings: Vec::new(),
            run_us: 0,
            sim_ns: 0,
            runs_with_sim_time: 0,
        }
    }

    pub fn absorb(&mut self, index: u64, case: &Case, out: &CaseOutcome) {
        self.cases += 1;
        let fam = case.family.split(':').next().unwrap_or("").to_string();
        *self.families.entry(fam).or_insert(0) += 1;
        let shape = simplan::fnv(&serde_json::to_vec(&case.world).unwrap_or_default(), 1);
        for rec in &out.records {
            self.runs += 1;
            self.run_us += rec.run.wall_us;
            let t = &rec.run.trace;
            self.sim_ns += t.sim_ns as u128;
            if t.sim_ns > 0 {
                self.runs_with_sim_time += 1;
            }
            self.steps += t.steps;
            self.max_steps = self.max_steps.max(t.steps);
            self.ctx += t.context_switches();
            let rc = t.real_choices();
            self.real_choices += rc;
            *self.strategies.entry(rec.inv.sched.strategy.clone()).or_insert(0) += 1;
            *self.threads.entry(rec.inv.opts.num_threads).or_insert(0) += 1;
            *self.statuses.entry(rec.run.status).or_insert(0) += 1;
            for f in &rec.inv.faults {
                *self.faults_planned.entry(format!("{}:{}", f.site, f.kind)).or_insert(0) += 1;
            }
            for f in &t.fired {
                *self.faults_fired.entry(format!("{}:{}", f.site, f.kind)).or_insert(0) += 1;
            }
            // natural permission faults (unprivileged runs): planned = mode bits set in the world,
            // fired = the OS actually refused (the program reported "Permission denied")
            if rec.world.unpriv {
                for m in rec.world.modes.values() {
                    *self.faults_planned.entry(format!("os.permission:{:04o}", m)).or_insert(0) += 1;
                }
                let denied = String::from_utf8_lossy(&rec.run.stderr).matches("ermission denied").count() as u64;
                if denied > 0 {
                    *self.faults_fired.entry("os.permission:EACCES-observed".into()).or_insert(0) += denied;
                }
            }
            for (k, v) in crate::probes::probes(&rec.run) {
                if v > 0 {
                    *self.probes.entry(k.to_string()).or_insert(0) += 1;
                }
            }
            let sig = t.signature();
            self.sigs.insert(sig);
            // non-trivial: the scheduler had at least one real choice AND the run exercised the
            // property's subject
            let ex = &rec.expected;
            let subject = match self.id.as_str() {
                "C13" | "C19" | "C14" => {
                    ex.per_file.values().any(|f| !matches!(f, FileExpect::Same)) || !ex.selection.missing_args.is_empty() || !t.fired.is_empty()
                }
                "C15" => {
                    rec.world.files.keys().any(|k| k.ends_with("stylua.toml") || (k.ends_with(".editorconfig") && k != ".editorconfig"))
                        || !rec.inv.opts.overrides.is_empty()
                        || rec.inv.opts.config_path.is_some()
                }
                "C16" => {
                    rec.world.files.keys().any(|k| k.ends_with(".styluaignore") || k.rsplit('/').next().map(|n| n.starts_with('.')).unwrap_or(false))
                        || rec.inv.opts.globs.is_some()
                        || rec.inv.opts.files.len() > 1
                }
                _ => true,
            };
            if rc > 0 && subject {
                self.nontrivial_runs += 1;
                let argv_h = simplan::fnv(rec.inv.opts.to_argv().join(" ").as_bytes(), 3);
                self.distinct.insert((shape ^ argv_h, sig));
            }
            if self.samples.len() < 3 && (index % 5 == 0 || !t.fired.is_empty()) {
                self.samples.push(sample_json(index, case, rec));
            }
        }
    }

    pub fn merge(&mut self, o: Stats) {
        self.cases += o.cases;
        self.runs += o.runs;
        self.steps += o.steps;
        self.max_steps = self.max_steps.max(o.max_steps);
        self.ctx += o.ctx;
        self.real_choices += o.real_choices;
        self.nontrivial_runs += o.nontrivial_runs;
        self.run_us += o.run_us;
        self.sim_ns += o.sim_ns;
        self.runs_with_sim_time += o.runs_with_sim_time;
        self.capped |= o.capped;
        for (k, v) in o.strategies {
            *self.strategies.entry(k).or_insert(0) += v;
        }
        for (k, v) in o.threads {
            *self.threads.entry(k).or_insert(0) += v;
        }
        for (k, v) in o.faults_planned {
            *self.faults_planned.entry(k).or_insert(0) += v;
        }
        for (k, v) in o.faults_fired {
            *self.faults_fired.entry(k).or_insert(0) += v;
        }
        for (k, v) in o.probes {
            *self.probes.entry(k).or_insert(0) += v;
        }
        for (k, v) in o.families {
            *self.families.entry(k).or_insert(0) += v;
        }
        for (k, v) in o.statuses {
            *self.statuses.entry(k).or_insert(0) += v;
        }
        self.distinct.extend(o.distinct);
        self.sigs.extend(o.sigs);
        for s in o.samples {
            if self.samples.len() < 3 {
                self.samples.push(s);
            }
        }
    }
}

fn sample_json(index: u64, case: &Case, rec: &crate::check::RunRecord) -> Value {
    let tree: Vec<String> = rec.world.files.iter().map(|(k, v)| format!("{k} ({} bytes)", v.len())).collect();
    let events: Vec<String> = rec.run.trace.events.iter().take(40).map(|e| format!("{} t{} {}", e.step, e.tid, e.label)).collect();
    json!({
        "case_index": index,
        "family": case.family,
        "cwd": rec.world.cwd,
        "argv": rec.inv.opts.to_argv(),
        "tree": tree,
        "faults": rec.inv.faults.iter().map(|f| format!("{} {} #{} {}", f.site, f.path, f.nth, f.kind)).collect::<Vec<_>>(),
        "schedule": {"strategy": rec.inv.sched.strategy, "seed": rec.inv.sched.seed, "dir_key": rec.inv.dir_key},
        "model_status": rec.expected.status,
        "observed_status": rec.run.status,
        "steps": rec.run.trace.steps,
        "first_trace_events": events,
    })
}

fn components() -> Value {
    json!({
        "real": [
            "src/cli/main.rs, config.rs, opt.rs, output_diff.rs (100% of the CLI, unmodified, built from /repo's working tree)",
            "stylua_lib (real formatter; one fault point in front of format_code)",
            "threadpool 1.8.1 (real source on simulated Mutex/Condvar/mpsc/atomics/thread)",
            "ignore (real walker/gitignore/overrides; seeded per-directory order)",
            "clap, env_logger, log, globset, ec4rs, toml, similar, serde_json, console, anyhow",
            "file system: real tmpfs tree under /dev/shm, private per run",
            "process exit: real process::exit; other threads die parked at their last seam"
        ],
        "stub": [
            "crossbeam-channel (FIFO channel on the simulated scheduler with the documented contract)",
            "std::sync::{Mutex,Condvar,RwLock,mpsc,atomic}, std::thread::{spawn,Builder,JoinHandle} (simulated primitives)",
            "std::fs::{read_to_string,read,write} (real I/O split into scheduled steps, fault lookup in front)",
            "std::io::{stdin,stdout,stderr} (real streams behind a simulated lock, fault lookup in front)"
        ]
    })
}

pub fn evidence_json(s: &Stats) -> Value {
    let unreached: Vec<&str> = crate::probes::relevant(&s.id).iter().cloned().filter(|p| !s.probes.contains_key(*p)).collect();
    let rule = match s.id.as_str() {
        "C19" => "each case = one generated world + argv (check-mode or write-mode history, faults, missing paths) executed under K+1 seeded schedules from different strategies and >=3 thread counts; a run counts as non-trivial when the scheduler had >=1 decision with >=2 runnable tasks AND the world contains a diff, an error or a fired fault; distinct = distinct (world+argv hash, schedule signature) pairs, schedule signature = hash of the executed (task, operation) sequence",
        "C20" => "first the finite sweep option x documented value x carrier is enumerated completely (one simulated run each), then random sweep entries and malformed-carrier worlds; non-trivial = scheduler had a real choice; distinct = distinct (world+argv hash, schedule signature) pairs",
        _ => "each case = one world (tree, cwd, env) + 1..3 invocations (argv, stdin, thread count, faults, seeded directory order, seeded schedule) drawn from VERIF_SEED; a run counts as non-trivial when the scheduler had >=1 decision with >=2 runnable tasks AND the run exercised the property's subject (a differing/failing file, a fired fault, a configuration carrier, an ignore rule / glob / hidden entry / several arguments); distinct = distinct (world+argv hash, schedule signature) pairs, schedule signature = hash of the executed (task, operation) sequence",
    };
    let hours = s.wall_s / 3600.0;
    json!({
        "property_id": s.id,
        "tier": if s.tier == "thorough" { "thorough" } else { "quick" },
        "seed": s.seed,
        "level": "exploration",
        "coverage": {
            "evaluations": s.runs,
            "distinct_nontrivial": s.distinct.len(),
            "rule": rule,
            "samples": s.samples,
            "cases": s.cases,
            "nontrivial_runs": s.nontrivial_runs,
            "runs_per_hour": if hours > 0.0 { (s.runs as f64 / hours) as u64 } else { 0 },
            "seeds": format!("VERIF_SEED={} -> per-case streams fork(case index) for {} cases; every run's schedule seed, directory-order key and fault plan derive from it", s.seed, s.cases),
            "scheduler_steps": s.steps,
            "max_steps_in_one_run": s.max_steps,
            "context_switches": s.ctx,
            "real_choices": s.real_choices,
            "distinct_schedule_signatures": s.sigs.len(),
            "strategies": s.strategies,
            "thread_counts": s.threads.iter().map(|(k, v)| (k.to_string(), *v)).collect::<BTreeMap<String, u64>>(),
            "faults_planned": s.faults_planned,
            "faults_fired": s.faults_fired,
            "probes": s.probes,
            "probes_relevant_to_this_property": crate::probes::relevant(&s.id),
            "probes_unreached": unreached,
            "families": s.families,
            "exit_statuses": s.statuses.iter().map(|(k, v)| (k.to_string(), *v)).collect::<BTreeMap<String, u64>>(),
            "simulated_time": format!(
                "{:.1} simulated seconds over {} run(s) that waited on the simulated clock (injected producer stalls, sleeps, timed waits); the CLI itself has no timer or timeout, so every other run takes zero simulated time and progress is measured in scheduler steps (bounded-liveness limit 200000 per run)",
                s.sim_ns as f64 / 1e9,
                s.runs_with_sim_time
            ),
            "mean_run_wall_us": if s.runs > 0 { s.run_us / s.runs } else { 0 },
            "components": components(),
            "known_findings_seen": s.known_findings,
            "wall_clock_cap_reached": s.capped,
            "jobs": s.jobs,
            "exhaustive": false
        },
        "assumptions": [
            "sequentially consistent interleavings only (StyLua's own atomics are SeqCst)",
            "reference model covers the documented fragment the generators stay inside (DESIGN.md §5.1)",
            "expected text = stylua_lib::format_code from the same /repo tree under the model's Config",
            "seeded sampling: a clean batch is evidence, not proof"
        ],
        "wall_s": s.wall_s,
        "violations": s.violations
    })
}
