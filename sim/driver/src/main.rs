fn main(){}
