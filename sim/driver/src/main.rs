//! driver: seeded search over worlds, faults and schedules for the StyLua CLI properties.
//!
//!   driver check <ID> [--tier quick|thorough] [--seed N] [--cases N] [--jobs N]
//!   driver replay <file>
//!   driver determinism [--cases N]
//!   driver selftest
//!
//! exit 0: property held on everything explored (KNOWN-FINDING lines for listed findings)
//! exit 1: "VIOLATION property=<id> replay=<path>"
//! exit 2: harness error
mod carrier;
mod check;
mod exec;
mod gen;
mod minimise;
mod model;
mod oracle;
mod probes;
mod report;
mod rng;
mod world;

use check::{check_case, gen_case};
use exec::{check_ancestors_clean, sim_binary, Scratch};
use oracle::Violation;
use rng::Rng;
use std::collections::BTreeMap;
use std::path::PathBuf;
use std::sync::atomic::{AtomicBool, AtomicU64, Ordering};
use std::sync::{Arc, Mutex};
use std::time::Instant;
use world::Case;

pub fn verif_dir() -> PathBuf {
    if let Ok(d) = std::env::var("VERIF_DIR") {
        return PathBuf::from(d);
    }
    // target/debug/driver -> /verif/sim/target/debug -> /verif
    let exe = std::env::current_exe().unwrap();
    exe.ancestors().nth(4).map(|p| p.to_path_buf()).unwrap_or_else(|| PathBuf::from("/verif"))
}

struct Args {
    cmd: String,
    id: String,
    tier: String,
    seed: u64,
    cases: Option<u64>,
    jobs: usize,
    replay: Option<String>,
    max_wall_s: f64,
}

fn parse_args() -> Args {
    let a: Vec<String> = std::env::args().collect();
    let mut args = Args {
        cmd: a.get(1).cloned().unwrap_or_default(),
        id: String::new(),
        tier: std::env::var("VERIF_TIER").unwrap_or_else(|_| "quick".into()),
        seed: std::env::var("VERIF_SEED").ok().and_then(|s| s.parse().ok()).unwrap_or(1),
        cases: None,
        jobs: std::thread::available_parallelism().map(|n| n.get()).unwrap_or(8),
        replay: None,
        max_wall_s: 0.0,
    };
    let mut i = 2;
    while i < a.len() {
        match a[i].as_str() {
            "--tier" => {
                args.tier = a[i + 1].clone();
                i += 1;
            }
            "--seed" => {
                args.seed = a[i + 1].parse().expect("--seed N");
                i += 1;
            }
            "--cases" => {
                args.cases = Some(a[i + 1].parse().expect("--cases N"));
                i += 1;
            }
            "--jobs" => {
                args.jobs = a[i + 1].parse().expect("--jobs N");
                i += 1;
            }
            "--replay" => {
                args.replay = Some(a[i + 1].clone());
                i += 1;
            }
            "--max-wall" => {
                args.max_wall_s = a[i + 1].parse().expect("--max-wall S");
                i += 1;
            }
            x if args.id.is_empty() && !x.starts_with("--") => args.id = x.to_string(),
            x => {
                eprintln!("unknown argument {x}");
                std::process::exit(2);
            }
        }
        i += 1;
    }
    args
}

/// (cases, schedules per case for C19, wall-clock cap in seconds)
fn budget(id: &str, tier: &str) -> (u64, usize, f64) {
    let thorough = tier == "thorough";
    match (id, thorough) {
        ("C19", false) => (2_400, 6, 200.0),
        ("C19", true) => (20_000, 24, 2400.0),
        ("C14", false) => (9_000, 0, 200.0),
        ("C14", true) => (150_000, 0, 2400.0),
        ("C20", false) => (16_000, 0, 200.0),
        ("C20", true) => (250_000, 0, 2400.0),
        (_, false) => (14_000, 0, 200.0),
        (_, true) => (250_000, 0, 2400.0),
    }
}

pub struct Found {
    pub v: Violation,
    /// the case variant(s) exhibiting it (two for a differential violation)
    pub cases: Vec<Case>,
    pub case_index: u64,
}

fn cmd_check(args: &Args) -> i32 {
    let id = args.id.as_str();
    if !["C13", "C14", "C15", "C16", "C17", "C19", "C20"].contains(&id) {
        eprintln!("property {id} is not decided by this framework (see MANIFEST.json not_applicable)");
        return 2;
    }
    let bin = sim_binary();
    if !bin.exists() {
        eprintln!("simulated binary {} missing — build first", bin.display());
        return 2;
    }
    let probe = Scratch::new("probe");
    if let Err(e) = check_ancestors_clean(&probe.dir) {
        eprintln!("HARNESS: {e}");
        return 2;
    }
    drop(probe);
    let bin = match exec::stage_binary(&bin) {
        Ok(b) => b,
        Err(e) => {
            eprintln!("HARNESS: {e}");
            return 2;
        }
    };
    if let Some(r) = &args.replay {
        return minimise::cmd_replay(&bin, id, r);
    }
    let (mut ncases, k_sched, mut cap) = budget(id, &args.tier);
    if let Some(c) = args.cases {
        ncases = c;
    }
    if args.max_wall_s > 0.0 {
        cap = args.max_wall_s;
    }
    let thorough = args.tier == "thorough";
    gen::THOROUGH.store(thorough, Ordering::Relaxed);
    println!("VERIF_SEED={} property={} tier={} cases={} jobs={}", args.seed, id, args.tier, ncases, args.jobs);
    if id == "C20" {
        match carrier::selfcheck() {
            Err(e) => {
                eprintln!("HARNESS: carrier self-check failed: {e}");
                return 2;
            }
            Ok((n, insens)) => {
                println!("carrier sweep: {} entries; probe-insensitive value pairs: {:?}", n, insens);
            }
        }
    }
    let t0 = Instant::now();
    let base = Rng::new(args.seed).fork(simplan::fnv(id.as_bytes(), 0));
    let next = Arc::new(AtomicU64::new(0));
    let stop = Arc::new(AtomicBool::new(false));
    let stats = Arc::new(Mutex::new(report::Stats::new(id)));
    let found: Arc<Mutex<Vec<Found>>> = Arc::new(Mutex::new(Vec::new()));
    let harness: Arc<Mutex<Vec<String>>> = Arc::new(Mutex::new(Vec::new()));
    let sweep_len = if id == "C20" { carrier::sweep().len() as u64 } else { 0 };
    std::thread::scope(|s| {
        for w in 0..args.jobs {
            let (next, stop, stats, found, harness, base, bin) =
                (next.clone(), stop.clone(), stats.clone(), found.clone(), harness.clone(), base.clone(), bin.clone());
            s.spawn(move || {
                let scratch = Scratch::new(&format!("w{w}"));
                let mut local = report::Stats::new(id);
                loop {
                    if stop.load(Ordering::Relaxed) {
                        break;
                    }
                    let i = next.fetch_add(1, Ordering::Relaxed);
                    if i >= ncases {
                        break;
                    }
                    if t0.elapsed().as_secs_f64() > cap {
                        stop.store(true, Ordering::Relaxed);
                        local.capped = true;
                        break;
                    }
                    let mut rng = base.fork(i);
                    let case = if id == "C20" && i < sweep_len {
                        // the first cases enumerate the finite sweep completely
                        let e = carrier::sweep()[i as usize].clone();
                        carrier::sweep_case(&e, &mut rng)
                    } else {
                        gen_case(id, &mut rng, thorough)
                    };
                    let out = check_case(id, &bin, &scratch, &case, &mut rng, k_sched);
                    if let Some(h) = out.harness {
                        harness.lock().unwrap().push(format!("case {i}: {h}"));
                        stop.store(true, Ordering::Relaxed);
                        break;
                    }
                    local.absorb(i, &case, &out);
                    if !out.violations.is_empty() {
                        let mut f = found.lock().unwrap();
                        for (v, cases) in out.violations {
                            // one representative per class is enough; keep the smallest world
                            let size = case.world.files.len();
                            match f.iter_mut().find(|x| x.v.class == v.class) {
                                Some(x) => {
                                    if size < x.cases[0].world.files.len() {
                                        *x = Found { v, cases, case_index: i };
                                    }
                                }
                                None => f.push(Found { v, cases, case_index: i }),
                            }
                        }
                    }
                }
                stats.lock().unwrap().merge(local);
            });
        }
    });
    let harness = harness.lock().unwrap();
    if !harness.is_empty() {
        for h in harness.iter() {
            eprintln!("HARNESS: {h}");
        }
        return 2;
    }
    let mut stats = stats.lock().unwrap();
    stats.wall_s = t0.elapsed().as_secs_f64();
    stats.seed = args.seed;
    stats.tier = args.tier.clone();
    stats.jobs = args.jobs;
    let mut found = found.lock().unwrap();
    found.sort_by(|a, b| a.v.class.cmp(&b.v.class));
    let known = report::load_known(&verif_dir());
    let mut exit = 0;
    let mut n_viol = 0;
    let mut known_hits: BTreeMap<String, String> = BTreeMap::new();
    // listed findings are first replayed on their recorded inputs
    for k in known.iter().filter(|k| k.property == id && k.status == "open") {
        if let Some(rp) = &k.replay {
            let path = verif_dir().join(rp);
            let scratch = Scratch::new("known");
            match std::fs::read_to_string(&path).ok().and_then(|t| serde_json::from_str::<minimise::ReplayFile>(&t).ok()) {
                None => {
                    eprintln!("HARNESS: known finding replay {} missing or unreadable", path.display());
                    return 2;
                }
                Some(rf) => match minimise::evaluate(&bin, &scratch, id, &rf.cases) {
                    Err(e) => {
                        eprintln!("HARNESS: known finding replay {}: {e}", path.display());
                        return 2;
                    }
                    Ok((vs, _)) => {
                        if let Some(v) = vs.iter().find(|v| v.class.contains(&k.class)) {
                            known_hits.insert(k.class.clone(), format!("{} [replayed {}: {}]", k.what, rp, v.detail));
                        } else {
                            println!("note: listed finding {} no longer reproduces on its recorded input {}", k.class, rp);
                        }
                    }
                },
            }
        }
    }
    let write_known = std::env::var("DRIVER_WRITE_KNOWN").is_ok();
    // minimisation is bounded per class (60 s) and per check (240 s): once the check's budget is
    // spent the remaining classes are still written as exact replay files, just not shrunk
    let minimise_t0 = Instant::now();
    let no_minimise = std::env::var("DRIVER_NO_MINIMISE").is_ok();
    let class_budget = |t0: &Instant| -> u64 {
        if no_minimise || t0.elapsed().as_secs() > 240 {
            0
        } else {
            60
        }
    };
    for f in found.iter() {
        if let Some(k) = known.iter().find(|k| k.property == id && k.status == "open" && f.v.class.contains(&k.class)) {
            known_hits.entry(k.class.clone()).or_insert_with(|| format!("{} (e.g. case {}: {})", k.what, f.case_index, f.v.detail));
            if write_known {
                let scratch = Scratch::new("minimise");
                match minimise::minimise_and_write(&bin, &scratch, id, f, &verif_dir(), "known", 60) {
                    Ok(p) => println!("recorded input for {} -> {}", f.v.class, p.display()),
                    Err(e) => eprintln!("could not record {}: {e}", f.v.class),
                }
            }
            continue;
        }
        // minimise, write the replay file, confirm it in a fresh run, report
        let scratch = Scratch::new("minimise");
        match minimise::minimise_and_write(&bin, &scratch, id, f, &verif_dir(), "replays", class_budget(&minimise_t0)) {
            Ok(path) => {
                println!("VIOLATION property={} replay={}", id, path.display());
                println!("  class: {}", f.v.class);
                println!("  detail: {}", f.v.detail);
                n_viol += 1;
                exit = 1;
            }
            Err(e) => {
                eprintln!("HARNESS: violation {} (case {}) could not be replayed: {e}", f.v.class, f.case_index);
                return 2;
            }
        }
    }
    for (class, what) in &known_hits {
        println!("KNOWN-FINDING: property={} {} — {}", id, class, what);
    }
    stats.violations = n_viol;
    stats.known_findings = known_hits.keys().cloned().collect();
    let ev = report::evidence_json(&stats);
    let evdir = verif_dir().join("evidence");
    let _ = std::fs::create_dir_all(&evdir);
    if let Err(e) = std::fs::write(evdir.join(format!("{id}.json")), serde_json::to_vec_pretty(&ev).unwrap()) {
        eprintln!("HARNESS: cannot write evidence: {e}");
        return 2;
    }
    println!(
        "{}: {} cases, {} runs, {:.1}s, {} distinct nontrivial, {} violation class(es), {} known finding(s){}",
        id,
        stats.cases,
        stats.runs,
        stats.wall_s,
        stats.distinct.len(),
        n_viol,
        known_hits.len(),
        if stats.capped { " [wall-clock cap reached]" } else { "" }
    );
    exit
}

/// Determinism proof: every case is executed twice, in different scratch directories and on
/// different worker threads; trace, exit status, stdout and the final tree must be identical.
fn cmd_determinism(args: &Args) -> i32 {
    let bin = match exec::stage_binary(&sim_binary()) {
        Ok(b) => b,
        Err(e) => {
            eprintln!("HARNESS: {e}");
            return 2;
        }
    };
    let n = args.cases.unwrap_or(400);
    let base = Rng::new(args.seed).fork(0xD37);
    let next = Arc::new(AtomicU64::new(0));
    let bad: Arc<Mutex<Vec<String>>> = Arc::new(Mutex::new(Vec::new()));
    let t0 = Instant::now();
    let props = ["C13", "C14", "C15", "C16", "C17", "C19", "C20"];
    std::thread::scope(|s| {
        for w in 0..args.jobs {
            let (next, bad, base, bin) = (next.clone(), bad.clone(), base.clone(), bin.clone());
            s.spawn(move || {
                let s1 = Scratch::new(&format!("d{w}a"));
                let s2 = Scratch::new(&format!("d{w}b-longer-name"));
                loop {
                    let i = next.fetch_add(1, Ordering::Relaxed);
                    if i >= n {
                        break;
                    }
                    let mut rng = base.fork(i);
                    let p = props[(i % props.len() as u64) as usize];
                    let case = gen_case(p, &mut rng, false);
                    let a = check::execute(&bin, &s1, &case);
                    let b = check::execute(&bin, &s2, &case);
                    match (a, b) {
                        (Ok(a), Ok(b)) => {
                            for (x, y) in a.iter().zip(b.iter()) {
                                let same = x.run.trace.raw == y.run.trace.raw
                                    && x.run.status == y.run.status
                                    && x.run.stdout == y.run.stdout
                                    && x.run.after.files.iter().map(|(k, v)| (k, &v.bytes)).eq(y.run.after.files.iter().map(|(k, v)| (k, &v.bytes)));
                                if !same {
                                    bad.lock().unwrap().push(format!(
                                        "case {i} ({p}): runs differ (status {} vs {}, trace equal: {})",
                                        x.run.status,
                                        y.run.status,
                                        x.run.trace.raw == y.run.trace.raw
                                    ));
                                }
                            }
                        }
                        (a, b) => bad.lock().unwrap().push(format!("case {i}: harness error {:?} {:?}", a.err(), b.err())),
                    }
                }
            });
        }
    });
    let bad = bad.lock().unwrap();
    println!("determinism: {} cases x2, jobs={}, {:.1}s, {} divergences", n, args.jobs, t0.elapsed().as_secs_f64(), bad.len());
    for b in bad.iter().take(10) {
        eprintln!("HARNESS: {b}");
    }
    if bad.is_empty() {
        0
    } else {
        2
    }
}

fn main() {
    let args = parse_args();
    let code = match args.cmd.as_str() {
        "check" => cmd_check(&args),
        "replay" => {
            let bin = sim_binary();
            minimise::cmd_replay(&bin, "", &args.id)
        }
        "determinism" => cmd_determinism(&args),
        "gencase" => {
            // driver gencase <ID> --cases <index> [--seed N] [--replay out.json]: write case <index> as a replay file
            let idx = args.cases.unwrap_or(0);
            let base = Rng::new(args.seed).fork(simplan::fnv(args.id.as_bytes(), 0));
            let mut rng = base.fork(idx);
            let case = gen_case(&args.id, &mut rng, args.tier == "thorough");
            let rf = minimise::ReplayFile { property: args.id.clone(), class: "generated".into(), detail: String::new(), note: format!("case {idx}"), cases: vec![case] };
            let out = args.replay.clone().unwrap_or_else(|| "/dev/shm/case.json".into());
            std::fs::write(&out, serde_json::to_vec_pretty(&rf).unwrap()).unwrap();
            println!("{out}");
            0
        }
        "selftest" => match carrier::selfcheck() {
            Ok((n, ins)) => {
                println!("selftest ok: sweep {n} entries, insensitive pairs {:?}", ins);
                0
            }
            Err(e) => {
                eprintln!("HARNESS: {e}");
                2
            }
        },
        _ => {
            eprintln!("usage: driver check <ID> [--tier quick|thorough] [--seed N] | replay <file> | determinism | selftest");
            2
        }
    };
    // remove the per-process scratch root
    let base = if std::path::Path::new("/dev/shm").is_dir() { PathBuf::from("/dev/shm") } else { std::env::temp_dir() };
    let _ = std::fs::remove_dir_all(base.join(format!("stylua-verif-{}", std::process::id())));
    std::process::exit(code);
}
