//! `stylua_lib` facade: the real library from /repo, with a fault point in front of
//! `format_code` (inject a formatter crash, or a verification failure when `--verify` is on).
pub use stylua_real::*;

#[allow(clippy::result_large_err)]
pub fn format_code(
    code: &str,
    config: Config,
    range: Option<Range>,
    verify: OutputVerification,
) -> Result<String, Error> {
    let key = stylua_verif_seams::last_read();
    let key = if key.is_empty() { "stdin".to_string() } else { key };
    stylua_verif_seams::point(&key, &format!("lib.format_code {key}"));
    stylua_verif_seams::set_last_read("");
    if let Some((kind, _)) = stylua_verif_seams::fault("format", &key) {
        match kind.as_str() {
            "panic" => panic!("injected formatter crash for {key}"),
            "verify" => {
                if let OutputVerification::Full = verify {
                    return Err(Error::VerificationAstDifference);
                }
            }
            _ => {}
        }
    }
    stylua_real::format_code(code, config, range, verify)
}
