//! simrt: baton-passing deterministic scheduler over real OS threads.
//!
//! Every thread of the simulated process is a real OS thread, but only the thread holding the
//! baton runs; at every interception point the baton holder asks the seeded strategy who runs
//! next, hands the baton over and parks.  One plan (seed / explicit overrides) = one execution.
use simplan::{splitmix, Plan, EXIT_DEADLOCK, EXIT_HARNESS, EXIT_REPLAY_DIVERGED, EXIT_STEP_BOUND};
use std::cell::Cell;
use std::collections::BTreeMap;
use std::fmt::Write as _;
use std::sync::Mutex as StdMutex;
use std::thread::Thread;

#[derive(Clone, Copy, PartialEq, Eq, Debug)]
pub enum Status {
    Runnable,
    Blocked(u64),
    Finished,
}

struct Task {
    name: String,
    status: Status,
    thread: Option<Thread>,
    /// label / resource of the operation this task will perform when it next gets the baton
    pending: String,
    pending_res: String,
    prio: u64,
    /// blocked with a timeout: may be woken by the scheduler when nothing else can run
    timed: bool,
    /// the last timed block ended by timeout rather than by a wake-up
    timed_out: bool,
    /// simulated time at which the timed block ends
    deadline: u64,
}

pub struct Inner {
    enabled: bool,
    tasks: Vec<Task>,
    current: usize,
    rng: u64,
    step: u64,
    last_nrun: usize,
    trace: String,
    dumped: bool,
    next_res: u64,
    next_atomic: u32,
    wake_count: u64,
    plan: Option<Plan>,
    overrides: BTreeMap<u64, u32>,
    wake_overrides: BTreeMap<u64, u32>,
    pct_points: Vec<u64>,
    pct_low: u64,
    site_counts: BTreeMap<(String, String), u32>,
    pub faults_fired: u32,
    /// simulated clock (ns): advances only when no task can run, to the earliest deadline
    now_ns: u64,
}

static RT: StdMutex<Inner> = StdMutex::new(Inner {
    enabled: false,
    tasks: Vec::new(),
    current: 0,
    rng: 0,
    step: 0,
    last_nrun: 1,
    trace: String::new(),
    dumped: false,
    next_res: 1,
    next_atomic: 0,
    wake_count: 0,
    plan: None,
    overrides: BTreeMap::new(),
    wake_overrides: BTreeMap::new(),
    pct_points: Vec::new(),
    pct_low: 0,
    site_counts: BTreeMap::new(),
    faults_fired: 0,
    now_ns: 0,
});

thread_local! { static TID: Cell<Option<usize>> = const { Cell::new(None) }; }

fn lock() -> std::sync::MutexGuard<'static, Inner> {
    RT.lock().unwrap_or_else(|e| e.into_inner())
}

extern "C" {
    fn atexit(cb: extern "C" fn()) -> i32;
}

extern "C" fn at_exit_dump() {
    // try_lock: a run ended by finish_run still holds the lock on this thread (and has dumped)
    let Ok(mut g) = RT.try_lock() else { return };
    if g.enabled && !g.dumped {
        let _ = writeln!(g.trace, "X\t-\tatexit-without-exit-seam");
        dump(&mut g);
    }
}

fn harness_fail(msg: &str) -> ! {
    eprintln!("SIMRT-HARNESS-ERROR: {msg}");
    // bypass atexit handlers: the state may be inconsistent
    std::process::exit(EXIT_HARNESS)
}

pub fn enabled() -> bool {
    lock().enabled
}

pub fn init() {
    let path = match std::env::var("STYLUA_VERIF_PLAN") {
        Ok(p) => p,
        Err(_) => return, // no plan: run unsimulated (seams pass through)
    };
    let text = std::fs::read_to_string(&path).unwrap_or_else(|e| harness_fail(&format!("cannot read plan {path}: {e}")));
    let plan: Plan = serde_json::from_str(&text).unwrap_or_else(|e| harness_fail(&format!("bad plan {path}: {e}")));
    let mut g = lock();
    g.enabled = true;
    g.rng = plan.sched.seed ^ 0x5157_4c55_415f_5349; // distinct stream from the driver's
    g.overrides = plan.sched.overrides.iter().cloned().collect();
    g.wake_overrides = plan.sched.wake_overrides.iter().cloned().collect();
    if plan.sched.strategy == "pct" {
        let mut pts = Vec::new();
        for _ in 0..plan.sched.d {
            let r = splitmix(&mut g.rng);
            pts.push(1 + r % 400);
        }
        g.pct_points = pts;
        g.pct_low = 1 << 20;
    }
    let prio = splitmix(&mut g.rng) | (1 << 40);
    g.tasks.push(Task {
        name: "main".into(),
        status: Status::Runnable,
        thread: Some(std::thread::current()),
        pending: String::new(),
        pending_res: String::new(),
        prio,
        timed: false,
        timed_out: false,
        deadline: 0,
    });
    g.current = 0;
    let _ = writeln!(
        g.trace,
        "H\tstrategy={} seed={} p={} d={} victim={} dir_key={} faults={}",
        plan.sched.strategy,
        plan.sched.seed,
        plan.sched.p,
        plan.sched.d,
        plan.sched.victim,
        plan.dir_key,
        plan.faults.len()
    );
    g.plan = Some(plan);
    TID.with(|t| t.set(Some(0)));
    drop(g);
    unsafe {
        atexit(at_exit_dump);
    }
    // A panic on the main thread ends the process without passing the exit seam: note it.
    let prev = std::panic::take_hook();
    std::panic::set_hook(Box::new(move |info| {
        if let Some(tid) = me() {
            let mut g = lock();
            if g.enabled {
                let name = g.tasks[tid].name.clone();
                let _ = writeln!(g.trace, "P\t{}\t{}", tid, name);
            }
        }
        prev(info);
    }));
}

pub fn me() -> Option<usize> {
    TID.with(|t| t.get())
}

pub fn new_resource() -> u64 {
    let mut g = lock();
    let r = g.next_res;
    g.next_res += 1;
    r
}

pub fn new_atomic_id() -> u32 {
    let mut g = lock();
    g.next_atomic += 1;
    g.next_atomic
}

/// Simulated time in nanoseconds.
pub fn now_ns() -> u64 {
    lock().now_ns
}

/// Sleep in simulated time: the task is set aside until the clock reaches its deadline (which
/// happens only when nothing else can run).
pub fn sleep_ns(dur_ns: u64) {
    if me().is_none() || !enabled() {
        return;
    }
    let r = new_resource();
    block_timed(r, "thread.sleep", dur_ns);
}

pub fn dir_key() -> u64 {
    lock().plan.as_ref().map(|p| p.dir_key).unwrap_or(0)
}

/// Replace the world root by `$W`; relative paths are resolved against the current directory
/// and `.` components removed, so that `./a.lua` and `a.lua` are the same site.
pub fn norm_path(p: &std::path::Path) -> String {
    let abs = if p.is_absolute() {
        p.to_path_buf()
    } else {
        std::env::current_dir().map(|c| c.join(p)).unwrap_or_else(|_| p.to_path_buf())
    };
    let mut out = std::path::PathBuf::new();
    for c in abs.components() {
        match c {
            std::path::Component::CurDir => {}
            std::path::Component::ParentDir => {
                out.pop();
            }
            other => out.push(other.as_os_str()),
        }
    }
    let s = out.to_string_lossy().into_owned();
    let g = lock();
    if let Some(plan) = &g.plan {
        if !plan.world_root.is_empty() {
            if let Some(rest) = s.strip_prefix(&plan.world_root) {
                return format!("$W{rest}");
            }
        }
    }
    s
}

fn dump(g: &mut Inner) {
    if g.dumped {
        return;
    }
    g.dumped = true;
    for (i, t) in g.tasks.iter().enumerate() {
        let st = match t.status {
            Status::Runnable => "runnable".to_string(),
            Status::Blocked(r) => format!("blocked:{r}"),
            Status::Finished => "finished".to_string(),
        };
        let line = format!("T\t{}\t{}\t{}\t{}\n", i, t.name, st, t.pending);
        g.trace.push_str(&line);
    }
    let line = format!("S\tsteps={}\tfaults_fired={}\tsim_ns={}\n", g.step, g.faults_fired, g.now_ns);
    g.trace.push_str(&line);
    if let Some(plan) = &g.plan {
        if !plan.trace_path.is_empty() {
            let _ = std::fs::write(&plan.trace_path, g.trace.as_bytes());
        }
    }
}

fn finish_run(g: &mut Inner, why: &str, code: i32) -> ! {
    let _ = writeln!(g.trace, "X\t{}\t{}", code, why);
    dump(g);
    // _exit semantics are not needed: atexit sees dumped=true. Flush of stdout is wanted.
    std::process::exit(code)
}

fn res_of_label(g: &Inner, i: usize) -> &str {
    &g.tasks[i].pending_res
}

fn choose(g: &mut Inner, me: usize, runnable: &[usize]) -> usize {
    let me_runnable = runnable.contains(&me);
    let default = if me_runnable { me } else { runnable[0] };
    let strategy = g.plan.as_ref().map(|p| p.sched.strategy.clone()).unwrap_or_default();
    let (p, victim) = g.plan.as_ref().map(|p| (p.sched.p as u64, p.sched.victim as usize)).unwrap_or((50, 0));
    match strategy.as_str() {
        "replay" => {
            if let Some(t) = g.overrides.get(&g.step).cloned() {
                let t = t as usize;
                if !runnable.contains(&t) {
                    let msg = format!("override step={} task={} not runnable {:?}", g.step, t, runnable);
                    finish_run(g, &msg, EXIT_REPLAY_DIVERGED);
                }
                t
            } else {
                default
            }
        }
        "sticky" => {
            if me_runnable && splitmix(&mut g.rng) % 100 < p {
                me
            } else {
                runnable[(splitmix(&mut g.rng) % runnable.len() as u64) as usize]
            }
        }
        "pct" => {
            if g.pct_points.contains(&g.step) && me_runnable {
                g.pct_low -= 1;
                g.tasks[me].prio = g.pct_low;
            }
            *runnable.iter().max_by_key(|&&i| g.tasks[i].prio).unwrap()
        }
        "starve" => {
            let victim = victim % g.tasks.len().max(1);
            let others: Vec<usize> = runnable.iter().cloned().filter(|&i| i != victim).collect();
            let pool: &[usize] = if others.is_empty() || splitmix(&mut g.rng) % 100 < p { runnable } else { &others };
            if pool.contains(&me) && splitmix(&mut g.rng) % 100 < 50 {
                me
            } else {
                pool[(splitmix(&mut g.rng) % pool.len() as u64) as usize]
            }
        }
        "delay" => {
            let target = g.plan.as_ref().map(|p| p.sched.target.clone()).unwrap_or_default();
            let held: Vec<usize> =
                runnable.iter().cloned().filter(|&i| !target.is_empty() && g.tasks[i].pending.starts_with(&target)).collect();
            let free: Vec<usize> = runnable.iter().cloned().filter(|i| !held.contains(i)).collect();
            let pool: &[usize] = if free.is_empty() || splitmix(&mut g.rng) % 100 < p { runnable } else { &free };
            if pool.contains(&me) && splitmix(&mut g.rng) % 100 < 60 {
                me
            } else {
                pool[(splitmix(&mut g.rng) % pool.len() as u64) as usize]
            }
        }
        "conflict" => {
            // tasks whose pending operation touches a resource another runnable task's pending
            // operation also touches
            let mut conflicting: Vec<usize> = Vec::new();
            for &i in runnable {
                let r = res_of_label(g, i);
                if r.is_empty() {
                    continue;
                }
                if runnable.iter().any(|&j| j != i && res_of_label(g, j) == r) {
                    conflicting.push(i);
                }
            }
            let roll = splitmix(&mut g.rng) % 100;
            if !conflicting.is_empty() && roll < 70 {
                conflicting[(splitmix(&mut g.rng) % conflicting.len() as u64) as usize]
            } else if me_runnable && roll < 92 {
                me
            } else {
                runnable[(splitmix(&mut g.rng) % runnable.len() as u64) as usize]
            }
        }
        _ => runnable[(splitmix(&mut g.rng) % runnable.len() as u64) as usize],
    }
}

/// Core: the baton holder announces its next operation, picks who runs next, hands over and
/// parks until chosen again.  The `E` trace line is written when the task *resumes*, i.e. the
/// trace lists operations in the order they are performed.
fn switch(res: &str, label: &str) {
    let Some(me) = me() else {
        if enabled() {
            harness_fail(&format!("unregistered thread reached seam {label}"));
        }
        return;
    };
    let mut g = lock();
    if !g.enabled {
        return;
    }
    if g.current != me {
        harness_fail(&format!("seam {label} reached by task {me} without the baton (holder {})", g.current));
    }
    g.tasks[me].pending.clear();
    g.tasks[me].pending.push_str(label);
    g.tasks[me].pending_res.clear();
    g.tasks[me].pending_res.push_str(res);
    g.step += 1;
    let max = g.plan.as_ref().map(|p| p.max_steps).unwrap_or(200_000);
    if g.step > max {
        finish_run(&mut g, "STEP-BOUND", EXIT_STEP_BOUND);
    }
    let mut runnable: Vec<usize> =
        g.tasks.iter().enumerate().filter(|(_, t)| t.status == Status::Runnable).map(|(i, _)| i).collect();
    if runnable.is_empty() {
        // nothing can run: simulated time jumps to the earliest pending timeout (there is no
        // clock in the system, so "earliest" is the lowest task id — a fixed, replayable rule)
        let next = g
            .tasks
            .iter()
            .enumerate()
            .filter(|(_, t)| matches!(t.status, Status::Blocked(_)) && t.timed)
            .min_by_key(|(i, t)| (t.deadline, *i))
            .map(|(i, _)| i);
        if let Some(i) = next {
            g.now_ns = g.now_ns.max(g.tasks[i].deadline);
            g.tasks[i].status = Status::Runnable;
            g.tasks[i].timed = false;
            g.tasks[i].timed_out = true;
            let now = g.now_ns;
            let _ = writeln!(g.trace, "N\t{}\ttimeout fires for task {} at t={}ns", me, i, now);
            runnable.push(i);
        }
    }
    if runnable.is_empty() {
        let blocked: Vec<String> = g
            .tasks
            .iter()
            .filter(|t| matches!(t.status, Status::Blocked(_)))
            .map(|t| format!("{}@{}", t.name, t.pending))
            .collect();
        finish_run(&mut g, &format!("DEADLOCK blocked={:?}", blocked), EXIT_DEADLOCK);
    }
    let next = if runnable.len() == 1 { runnable[0] } else { choose(&mut g, me, &runnable) };
    g.last_nrun = runnable.len();
    g.current = next;
    let my_status = g.tasks[me].status;
    if my_status == Status::Finished {
        let step = g.step;
        let _ = writeln!(g.trace, "E\t{}\t{}\t{}\t{}", step, me, runnable.len(), label);
    }
    if next != me {
        if let Some(t) = &g.tasks[next].thread {
            t.unpark();
        }
    }
    drop(g);
    if my_status == Status::Finished {
        return;
    }
    wait_for_baton(me);
    let mut g = lock();
    let (step, nrun) = (g.step, g.last_nrun);
    let _ = writeln!(g.trace, "E\t{}\t{}\t{}\t{}", step, me, nrun, label);
    g.tasks[me].pending.clear();
    g.tasks[me].pending_res.clear();
}

fn wait_for_baton(me: usize) {
    loop {
        {
            let g = lock();
            if g.current == me {
                return;
            }
        }
        std::thread::park();
    }
}

/// A scheduling point before an operation on `res` described by `label`.
pub fn point(res: &str, label: &str) {
    switch(res, label)
}

/// A trace annotation by the baton holder (no scheduling).
pub fn note(text: &str) {
    let Some(me) = me() else { return };
    let mut g = lock();
    if !g.enabled {
        return;
    }
    let _ = writeln!(g.trace, "N\t{}\t{}", me, text);
}

pub fn block(res: u64, label: &str) {
    let Some(me) = me() else { return };
    {
        let mut g = lock();
        if !g.enabled {
            return;
        }
        g.tasks[me].status = Status::Blocked(res);
    }
    switch("", label);
}

pub fn wake_all(res: u64) {
    let mut g = lock();
    for t in g.tasks.iter_mut() {
        if t.status == Status::Blocked(res) {
            t.status = Status::Runnable;
            t.timed = false;
        }
    }
}

/// Block with a timeout.  Returns true if the wait ended by timeout (the scheduler fires a
/// timeout only when no task can run — time is what passes when everyone waits).
pub fn block_timed(res: u64, label: &str, dur_ns: u64) -> bool {
    let Some(me) = me() else { return true };
    {
        let mut g = lock();
        if !g.enabled {
            return true;
        }
        g.tasks[me].status = Status::Blocked(res);
        g.tasks[me].timed = true;
        g.tasks[me].timed_out = false;
        g.tasks[me].deadline = g.now_ns.saturating_add(dur_ns);
    }
    switch("", label);
    let mut g = lock();
    let r = g.tasks[me].timed_out;
    g.tasks[me].timed_out = false;
    g.tasks[me].timed = false;
    r
}

pub fn wake_one(res: u64) {
    let mut g = lock();
    let c: Vec<usize> =
        g.tasks.iter().enumerate().filter(|(_, t)| t.status == Status::Blocked(res)).map(|(i, _)| i).collect();
    if c.is_empty() {
        return;
    }
    let k = g.wake_count;
    g.wake_count += 1;
    let replay = g.plan.as_ref().map(|p| p.sched.strategy == "replay").unwrap_or(false);
    let idx = if c.len() == 1 {
        0
    } else if replay {
        (g.wake_overrides.get(&k).cloned().unwrap_or(0) as usize).min(c.len() - 1)
    } else {
        (splitmix(&mut g.rng) % c.len() as u64) as usize
    };
    let _ = writeln!(g.trace, "W\t{}\t{}\t{}", k, idx, c.len());
    g.tasks[c[idx]].status = Status::Runnable;
    g.tasks[c[idx]].timed = false;
}

struct FinishGuard(usize);
impl Drop for FinishGuard {
    fn drop(&mut self) {
        {
            let mut g = lock();
            g.tasks[self.0].status = Status::Finished;
        }
        wake_all(JOIN_RES_BASE + self.0 as u64);
        switch("", "thread.finish");
    }
}

pub const JOIN_RES_BASE: u64 = 1 << 40;

pub fn is_finished(tid: usize) -> bool {
    lock().tasks[tid].status == Status::Finished
}

/// Register a task for a thread that the caller spawns itself (scoped threads).  The new
/// thread must call `task_entry(tid)` first and keep the returned guard alive while it runs; the
/// spawner calls `task_spawned(tid, thread)` once the OS thread exists.
pub fn register_task(name: Option<String>) -> usize {
    if !enabled() {
        harness_fail("spawn through the seam without a plan is not supported");
    }
    let mut g = lock();
    let tid = g.tasks.len();
    let prio = splitmix(&mut g.rng) | (1 << 40);
    g.tasks.push(Task {
        name: name.unwrap_or_else(|| format!("t{}", tid)),
        status: Status::Runnable,
        thread: None,
        pending: "thread.start".into(),
        pending_res: String::new(),
        prio,
        timed: false,
        timed_out: false,
        deadline: 0,
    });
    tid
}

pub struct TaskGuard(#[allow(dead_code)] FinishGuard);

pub fn task_entry(tid: usize) -> TaskGuard {
    TID.with(|t| t.set(Some(tid)));
    wait_for_baton(tid);
    {
        let mut g = lock();
        let (step, nrun) = (g.step, g.last_nrun);
        let _ = writeln!(g.trace, "E\t{}\t{}\t{}\tthread.start", step, tid, nrun);
        g.tasks[tid].pending.clear();
    }
    TaskGuard(FinishGuard(tid))
}

pub fn task_spawned(tid: usize, thread: Thread) {
    {
        let mut g = lock();
        g.tasks[tid].thread = Some(thread);
    }
    point("", &format!("thread.spawn {tid}"));
}

/// Block (in the simulator) until task `tid` has finished.
pub fn join_task(tid: usize) {
    loop {
        point("", &format!("thread.join {tid}"));
        if is_finished(tid) {
            return;
        }
        block(JOIN_RES_BASE + tid as u64, "thread.join.blocked");
    }
}

pub fn spawn<F: FnOnce() + Send + 'static>(name: Option<String>, stack: Option<usize>, f: F) -> std::io::Result<usize> {
    if !enabled() {
        harness_fail("spawn through the seam without a plan is not supported");
    }
    let tid = {
        let mut g = lock();
        let tid = g.tasks.len();
        let prio = splitmix(&mut g.rng) | (1 << 40);
        g.tasks.push(Task {
            name: name.clone().unwrap_or_else(|| format!("t{}", tid)),
            status: Status::Runnable,
            thread: None,
            pending: "thread.start".into(),
            pending_res: String::new(),
            prio,
            timed: false,
            timed_out: false,
            deadline: 0,
        });
        tid
    };
    let mut b = std::thread::Builder::new();
    if let Some(n) = name {
        b = b.name(n);
    }
    if let Some(s) = stack {
        b = b.stack_size(s);
    }
    let h = b.spawn(move || {
        TID.with(|t| t.set(Some(tid)));
        wait_for_baton(tid);
        {
            let mut g = lock();
            let (step, nrun) = (g.step, g.last_nrun);
            let _ = writeln!(g.trace, "E\t{}\t{}\t{}\tthread.start", step, tid, nrun);
            g.tasks[tid].pending.clear();
        }
        let _g = FinishGuard(tid);
        f();
    })?;
    {
        let mut g = lock();
        g.tasks[tid].thread = Some(h.thread().clone());
    }
    point("", &format!("thread.spawn {tid}"));
    Ok(tid)
}

/// Fault lookup: is a fault planned for the nth occurrence of (site, path)?  Counts the
/// occurrence.  Returns (kind, arg).
pub fn fault(site: &str, path: &str) -> Option<(String, u64)> {
    let mut g = lock();
    if !g.enabled {
        return None;
    }
    let key = (site.to_string(), path.to_string());
    let n = {
        let c = g.site_counts.entry(key).or_insert(0);
        let n = *c;
        *c += 1;
        n
    };
    let hit = g
        .plan
        .as_ref()
        .and_then(|p| p.faults.iter().find(|f| f.site == site && f.path == path && f.nth == n).cloned());
    if let Some(f) = hit {
        g.faults_fired += 1;
        let me = g.current;
        let _ = writeln!(g.trace, "F\t{}\t{}\t{}\t{}\t{}", me, site, path, n, f.kind);
        Some((f.kind, f.arg))
    } else {
        None
    }
}

pub fn exit(code: i32) -> ! {
    {
        let mut g = lock();
        if g.enabled {
            let me = g.current;
            let _ = writeln!(g.trace, "X\t{}\texit by task {}", code, me);
            dump(&mut g);
        }
    }
    std::process::exit(code)
}
