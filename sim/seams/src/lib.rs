//! stylua_verif_seams: the `std` facade the simulated build of the StyLua CLI sees.
//!
//! `use stylua_verif_seams::std;` at the top of a module shadows the extern-prelude `std`
//! there, so `std::fs::write`, `std::sync::atomic::AtomicI32`, `std::process::exit`, … resolve
//! to the items below.  Everything not replaced is the real std (glob re-export).
//! Without a plan (`STYLUA_VERIF_PLAN` unset) every seam passes straight through.
pub mod rt;

pub use rt::{fault, note, point};

pub fn init() {
    rt::init()
}

pub fn dir_key() -> u64 {
    rt::dir_key()
}

thread_local! {
    /// The last path this thread read through the fs seam — keys the format_code fault point.
    pub static LAST_READ: ::std::cell::RefCell<String> = const { ::std::cell::RefCell::new(String::new()) };
}

pub fn last_read() -> String {
    LAST_READ.with(|l| l.borrow().clone())
}

pub fn set_last_read(s: &str) {
    LAST_READ.with(|l| *l.borrow_mut() = s.to_string());
}

fn io_err(kind: &str) -> ::std::io::Error {
    use ::std::io::ErrorKind as K;
    match kind {
        "EACCES" => ::std::io::Error::from_raw_os_error(13),
        "EIO" => ::std::io::Error::from_raw_os_error(5),
        "ENOSPC" => ::std::io::Error::from_raw_os_error(28),
        "EINTR" => ::std::io::Error::from(K::Interrupted),
        "EPIPE" => ::std::io::Error::from_raw_os_error(32),
        "EAGAIN" => ::std::io::Error::from_raw_os_error(11),
        "ETIMEDOUT" => ::std::io::Error::from_raw_os_error(110),
        _ => ::std::io::Error::new(K::Other, format!("injected {kind}")),
    }
}

/// A re-entrant lock on the simulated scheduler (models the stdout / stderr / stdin locks).
pub struct ReLock {
    st: ::std::sync::Mutex<(Option<usize>, u32)>,
    res: ::std::sync::atomic::AtomicU64,
    name: &'static str,
}

impl ReLock {
    pub const fn new(name: &'static str) -> Self {
        ReLock { st: ::std::sync::Mutex::new((None, 0)), res: ::std::sync::atomic::AtomicU64::new(0), name }
    }
    fn res(&self) -> u64 {
        use ::std::sync::atomic::Ordering::SeqCst;
        let r = self.res.load(SeqCst);
        if r != 0 {
            return r;
        }
        let n = rt::new_resource();
        self.res.store(n, SeqCst);
        n
    }
    pub fn lock(&self) {
        let Some(me) = rt::me() else { return };
        if !rt::enabled() {
            return;
        }
        loop {
            rt::point(self.name, &format!("{}.lock", self.name));
            {
                let mut st = self.st.lock().unwrap_or_else(|e| e.into_inner());
                match st.0 {
                    None => {
                        *st = (Some(me), 1);
                        return;
                    }
                    Some(o) if o == me => {
                        st.1 += 1;
                        return;
                    }
                    _ => {}
                }
            }
            rt::block(self.res(), &format!("{}.lock.blocked", self.name));
        }
    }
    pub fn unlock(&self) {
        if rt::me().is_none() || !rt::enabled() {
            return;
        }
        let mut st = self.st.lock().unwrap_or_else(|e| e.into_inner());
        if st.1 > 0 {
            st.1 -= 1;
        }
        if st.1 == 0 {
            st.0 = None;
            drop(st);
            rt::wake_all(self.res());
        }
    }
}

pub mod std {
    pub use ::std::*;

    pub mod fs {
        pub use ::std::fs::*;
        use ::std::io::Write;
        use ::std::path::Path;

        fn read_seam(p: &Path) -> ::std::io::Result<()> {
            let np = crate::rt::norm_path(p);
            crate::point(&np, &format!("fs.read {np}"));
            crate::set_last_read(&np);
            if let Some((kind, _)) = crate::fault("fs.read", &np) {
                return Err(crate::io_err(&kind));
            }
            Ok(())
        }

        pub fn read_to_string<P: AsRef<Path>>(p: P) -> ::std::io::Result<String> {
            read_seam(p.as_ref())?;
            ::std::fs::read_to_string(p)
        }

        pub fn read<P: AsRef<Path>>(p: P) -> ::std::io::Result<Vec<u8>> {
            read_seam(p.as_ref())?;
            ::std::fs::read(p)
        }

        /// truncate / data / close are three separately scheduled steps: between the first two
        /// the file really is empty on disk, exactly what another thread or an exit would see.
        pub fn write<P: AsRef<Path>, C: AsRef<[u8]>>(p: P, c: C) -> ::std::io::Result<()> {
            let np = crate::rt::norm_path(p.as_ref());
            crate::point(&np, &format!("fs.write.open {np}"));
            if let Some((kind, _)) = crate::fault("fs.write.open", &np) {
                return Err(crate::io_err(&kind));
            }
            let mut f = ::std::fs::File::create(p.as_ref())?;
            crate::point(&np, &format!("fs.write.data {np}"));
            if let Some((kind, arg)) = crate::fault("fs.write.data", &np) {
                let c = c.as_ref();
                let n = (arg as usize).min(c.len());
                let _ = f.write_all(&c[..n]);
                return Err(crate::io_err(&kind));
            }
            f.write_all(c.as_ref())?;
            crate::point(&np, &format!("fs.write.close {np}"));
            drop(f);
            Ok(())
        }

        /// realpath: a failure here (ENAMETOOLONG, EIO, a vanished entry) must not make a file
        /// disappear from the run
        pub fn canonicalize<P: AsRef<Path>>(p: P) -> ::std::io::Result<::std::path::PathBuf> {
            let np = crate::rt::norm_path(p.as_ref());
            if let Some((kind, _)) = crate::fault("fs.canonicalize", &np) {
                crate::note(&format!("fs.canonicalize {np} -> injected {kind}"));
                return Err(crate::io_err(&kind));
            }
            ::std::fs::canonicalize(p)
        }

        /// `std::fs::File` on the simulator: opening is a scheduled step with the same fault sites
        /// as `read_to_string` / `write`, every read and write on the handle is a scheduled step,
        /// everything else derefs to the real file.
        pub struct File {
            inner: ::std::fs::File,
            np: String,
        }
        impl File {
            fn wrap(inner: ::std::fs::File, np: String) -> File {
                File { inner, np }
            }
            pub fn open<P: AsRef<Path>>(p: P) -> ::std::io::Result<File> {
                OpenOptions::new().read(true).open(p)
            }
            pub fn create<P: AsRef<Path>>(p: P) -> ::std::io::Result<File> {
                OpenOptions::new().write(true).create(true).truncate(true).open(p)
            }
            pub fn create_new<P: AsRef<Path>>(p: P) -> ::std::io::Result<File> {
                OpenOptions::new().read(true).write(true).create_new(true).open(p)
            }
            pub fn options() -> OpenOptions {
                OpenOptions::new()
            }
            pub fn try_clone(&self) -> ::std::io::Result<File> {
                Ok(File::wrap(self.inner.try_clone()?, self.np.clone()))
            }
            pub fn into_std(self) -> ::std::fs::File {
                self.inner
            }
        }
        impl ::std::ops::Deref for File {
            type Target = ::std::fs::File;
            fn deref(&self) -> &::std::fs::File {
                &self.inner
            }
        }
        impl ::std::fmt::Debug for File {
            fn fmt(&self, f: &mut ::std::fmt::Formatter<'_>) -> ::std::fmt::Result {
                ::std::fmt::Debug::fmt(&self.inner, f)
            }
        }
        impl ::std::os::fd::AsRawFd for File {
            fn as_raw_fd(&self) -> ::std::os::fd::RawFd {
                self.inner.as_raw_fd()
            }
        }
        impl ::std::os::fd::AsFd for File {
            fn as_fd(&self) -> ::std::os::fd::BorrowedFd<'_> {
                self.inner.as_fd()
            }
        }
        impl From<File> for ::std::fs::File {
            fn from(f: File) -> ::std::fs::File {
                f.inner
            }
        }
        fn file_read(f: &File, buf: &mut [u8]) -> ::std::io::Result<usize> {
            crate::point(&f.np, &format!("fs.file.read {}", f.np));
            if let Some((kind, _)) = crate::fault("fs.file.read", &f.np) {
                return Err(crate::io_err(&kind));
            }
            ::std::io::Read::read(&mut &f.inner, buf)
        }
        fn file_write(f: &File, buf: &[u8]) -> ::std::io::Result<usize> {
            crate::point(&f.np, &format!("fs.write.data {}", f.np));
            if let Some((kind, arg)) = crate::fault("fs.write.data", &f.np) {
                let n = (arg as usize).min(buf.len());
                let _ = ::std::io::Write::write(&mut &f.inner, &buf[..n]);
                return Err(crate::io_err(&kind));
            }
            ::std::io::Write::write(&mut &f.inner, buf)
        }
        impl ::std::io::Read for File {
            fn read(&mut self, buf: &mut [u8]) -> ::std::io::Result<usize> {
                file_read(self, buf)
            }
        }
        impl ::std::io::Read for &File {
            fn read(&mut self, buf: &mut [u8]) -> ::std::io::Result<usize> {
                file_read(self, buf)
            }
        }
        impl ::std::io::Write for File {
            fn write(&mut self, buf: &[u8]) -> ::std::io::Result<usize> {
                file_write(self, buf)
            }
            fn flush(&mut self) -> ::std::io::Result<()> {
                ::std::io::Write::flush(&mut &self.inner)
            }
        }
        impl ::std::io::Write for &File {
            fn write(&mut self, buf: &[u8]) -> ::std::io::Result<usize> {
                file_write(self, buf)
            }
            fn flush(&mut self) -> ::std::io::Result<()> {
                ::std::io::Write::flush(&mut &self.inner)
            }
        }
        impl ::std::io::Seek for File {
            fn seek(&mut self, pos: ::std::io::SeekFrom) -> ::std::io::Result<u64> {
                ::std::io::Seek::seek(&mut &self.inner, pos)
            }
        }
        impl ::std::io::Seek for &File {
            fn seek(&mut self, pos: ::std::io::SeekFrom) -> ::std::io::Result<u64> {
                ::std::io::Seek::seek(&mut &self.inner, pos)
            }
        }

        #[derive(Clone, Debug)]
        pub struct OpenOptions {
            inner: ::std::fs::OpenOptions,
            writes: bool,
            /// truncate / create / create_new / append: opening already changes (or may change) the tree
            replaces: bool,
        }
        impl OpenOptions {
            #[allow(clippy::new_without_default)]
            pub fn new() -> OpenOptions {
                OpenOptions { inner: ::std::fs::OpenOptions::new(), writes: false, replaces: false }
            }
            pub fn read(&mut self, v: bool) -> &mut Self {
                self.inner.read(v);
                self
            }
            pub fn write(&mut self, v: bool) -> &mut Self {
                self.inner.write(v);
                self.writes |= v;
                self
            }
            pub fn append(&mut self, v: bool) -> &mut Self {
                self.inner.append(v);
                self.writes |= v;
                self.replaces |= v;
                self
            }
            pub fn truncate(&mut self, v: bool) -> &mut Self {
                self.inner.truncate(v);
                self.replaces |= v;
                self
            }
            pub fn create(&mut self, v: bool) -> &mut Self {
                self.inner.create(v);
                self.replaces |= v;
                self
            }
            pub fn create_new(&mut self, v: bool) -> &mut Self {
                self.inner.create_new(v);
                self.replaces |= v;
                self
            }
            pub fn mode(&mut self, m: u32) -> &mut Self {
                ::std::os::unix::fs::OpenOptionsExt::mode(&mut self.inner, m);
                self
            }
            pub fn custom_flags(&mut self, f: i32) -> &mut Self {
                ::std::os::unix::fs::OpenOptionsExt::custom_flags(&mut self.inner, f);
                self
            }
            pub fn open<P: AsRef<Path>>(&self, p: P) -> ::std::io::Result<File> {
                let np = crate::rt::norm_path(p.as_ref());
                if self.writes {
                    // `fs.rw.open`: write access without truncation or creation (nothing changes yet)
                    let label = if self.replaces { "fs.write.open" } else { "fs.rw.open" };
                    crate::point(&np, &format!("{label} {np}"));
                    if let Some((kind, _)) = crate::fault("fs.write.open", &np) {
                        return Err(crate::io_err(&kind));
                    }
                } else {
                    crate::point(&np, &format!("fs.read {np}"));
                    crate::set_last_read(&np);
                    if let Some((kind, _)) = crate::fault("fs.read", &np) {
                        return Err(crate::io_err(&kind));
                    }
                }
                let f = self.inner.open(p.as_ref())?;
                if self.writes {
                    // a handle opened read+write is also how some implementations read
                    crate::set_last_read(&np);
                }
                Ok(File::wrap(f, np))
            }
        }

        macro_rules! passthrough1 {
            ($name:ident, $ret:ty) => {
                pub fn $name<P: AsRef<Path>>(p: P) -> ::std::io::Result<$ret> {
                    let np = crate::rt::norm_path(p.as_ref());
                    crate::point(&np, &format!(concat!("fs.", stringify!($name), " {}"), np));
                    ::std::fs::$name(p)
                }
            };
        }
        passthrough1!(remove_file, ());
        passthrough1!(create_dir, ());
        passthrough1!(create_dir_all, ());
        passthrough1!(remove_dir, ());
        passthrough1!(remove_dir_all, ());

        pub fn rename<P: AsRef<Path>, Q: AsRef<Path>>(a: P, b: Q) -> ::std::io::Result<()> {
            let (na, nb) = (crate::rt::norm_path(a.as_ref()), crate::rt::norm_path(b.as_ref()));
            crate::point(&nb, &format!("fs.rename {na} {nb}"));
            if let Some((kind, _)) = crate::fault("fs.rename", &nb) {
                return Err(crate::io_err(&kind));
            }
            ::std::fs::rename(a, b)
        }
        pub fn copy<P: AsRef<Path>, Q: AsRef<Path>>(a: P, b: Q) -> ::std::io::Result<u64> {
            let (na, nb) = (crate::rt::norm_path(a.as_ref()), crate::rt::norm_path(b.as_ref()));
            crate::point(&nb, &format!("fs.copy {na} {nb}"));
            ::std::fs::copy(a, b)
        }
        pub fn hard_link<P: AsRef<Path>, Q: AsRef<Path>>(a: P, b: Q) -> ::std::io::Result<()> {
            let (na, nb) = (crate::rt::norm_path(a.as_ref()), crate::rt::norm_path(b.as_ref()));
            crate::point(&nb, &format!("fs.hard_link {na} {nb}"));
            ::std::fs::hard_link(a, b)
        }
    }

    pub mod time {
        pub use ::std::time::*;
        /// `Instant` on the simulated clock: a fixed real base plus simulated nanoseconds, so that
        /// all arithmetic is the real type's.
        #[derive(Clone, Copy, PartialEq, Eq, PartialOrd, Ord, Hash, Debug)]
        pub struct Instant(::std::time::Instant);
        fn base() -> ::std::time::Instant {
            static BASE: ::std::sync::OnceLock<::std::time::Instant> = ::std::sync::OnceLock::new();
            *BASE.get_or_init(::std::time::Instant::now)
        }
        impl Instant {
            pub fn now() -> Instant {
                if crate::rt::enabled() {
                    Instant(base() + Duration::from_nanos(crate::rt::now_ns()))
                } else {
                    Instant(::std::time::Instant::now())
                }
            }
            pub fn elapsed(&self) -> Duration {
                Instant::now().0.saturating_duration_since(self.0)
            }
            pub fn duration_since(&self, earlier: Instant) -> Duration {
                self.0.saturating_duration_since(earlier.0)
            }
            pub fn saturating_duration_since(&self, earlier: Instant) -> Duration {
                self.0.saturating_duration_since(earlier.0)
            }
            pub fn checked_duration_since(&self, earlier: Instant) -> Option<Duration> {
                self.0.checked_duration_since(earlier.0)
            }
            pub fn checked_add(&self, d: Duration) -> Option<Instant> {
                self.0.checked_add(d).map(Instant)
            }
            pub fn checked_sub(&self, d: Duration) -> Option<Instant> {
                self.0.checked_sub(d).map(Instant)
            }
        }
        impl ::std::ops::Add<Duration> for Instant {
            type Output = Instant;
            fn add(self, d: Duration) -> Instant {
                Instant(self.0 + d)
            }
        }
        impl ::std::ops::Sub<Duration> for Instant {
            type Output = Instant;
            fn sub(self, d: Duration) -> Instant {
                Instant(self.0 - d)
            }
        }
        impl ::std::ops::Sub<Instant> for Instant {
            type Output = Duration;
            fn sub(self, o: Instant) -> Duration {
                self.0.saturating_duration_since(o.0)
            }
        }
        impl ::std::ops::AddAssign<Duration> for Instant {
            fn add_assign(&mut self, d: Duration) {
                self.0 += d;
            }
        }
    }

    pub mod process {
        pub use ::std::process::*;
        pub fn exit(code: i32) -> ! {
            crate::rt::exit(code)
        }
    }

    pub mod io {
        pub use ::std::io::*;
        use crate::ReLock;
        use ::std::sync::atomic::{AtomicBool, Ordering::SeqCst};

        static OUT_LOCK: ReLock = ReLock::new("stdout");
        static ERR_LOCK: ReLock = ReLock::new("stderr");
        static IN_LOCK: ReLock = ReLock::new("stdin");
        static OUT_BROKEN: AtomicBool = AtomicBool::new(false);

        fn out_write(buf: &[u8]) -> Result<usize> {
            if !crate::rt::enabled() || crate::rt::me().is_none() {
                return ::std::io::stdout().write(buf);
            }
            crate::point("stdout", &format!("stdout.write {}", buf.len()));
            if OUT_BROKEN.load(SeqCst) {
                return Err(crate::io_err("EPIPE"));
            }
            match crate::fault("stdout.write", "") {
                Some((k, _)) if k == "EPIPE" => {
                    OUT_BROKEN.store(true, SeqCst);
                    Err(crate::io_err("EPIPE"))
                }
                Some((k, _)) if k == "EINTR" => Err(crate::io_err("EINTR")),
                Some((k, _)) if k == "EAGAIN" => Err(crate::io_err("EAGAIN")),
                Some((k, arg)) if k == "short" => {
                    let n = (arg as usize).clamp(1, buf.len().max(1)).min(buf.len());
                    ::std::io::stdout().write_all(&buf[..n])?;
                    Ok(n)
                }
                _ => {
                    ::std::io::stdout().write_all(buf)?;
                    Ok(buf.len())
                }
            }
        }

        pub struct Stdout;
        pub struct StdoutLock<'a>(::std::marker::PhantomData<&'a ()>);
        pub fn stdout() -> Stdout {
            Stdout
        }
        impl Stdout {
            pub fn lock(&self) -> StdoutLock<'static> {
                OUT_LOCK.lock();
                StdoutLock(::std::marker::PhantomData)
            }
        }
        impl Drop for StdoutLock<'_> {
            fn drop(&mut self) {
                OUT_LOCK.unlock();
            }
        }
        impl Write for StdoutLock<'_> {
            fn write(&mut self, buf: &[u8]) -> Result<usize> {
                out_write(buf)
            }
            fn flush(&mut self) -> Result<()> {
                ::std::io::stdout().flush()
            }
        }
        impl Write for Stdout {
            fn write(&mut self, buf: &[u8]) -> Result<usize> {
                let _l = self.lock();
                out_write(buf)
            }
            fn flush(&mut self) -> Result<()> {
                ::std::io::stdout().flush()
            }
        }
        impl Write for &Stdout {
            fn write(&mut self, buf: &[u8]) -> Result<usize> {
                let _l = self.lock();
                out_write(buf)
            }
            fn flush(&mut self) -> Result<()> {
                ::std::io::stdout().flush()
            }
        }

        fn err_write(buf: &[u8]) -> Result<usize> {
            if crate::rt::enabled() && crate::rt::me().is_some() {
                crate::point("stderr", &format!("stderr.write {}", buf.len()));
            }
            ::std::io::stderr().write_all(buf)?;
            Ok(buf.len())
        }
        pub struct Stderr;
        pub struct StderrLock<'a>(::std::marker::PhantomData<&'a ()>);
        pub fn stderr() -> Stderr {
            Stderr
        }
        impl Stderr {
            pub fn lock(&self) -> StderrLock<'static> {
                ERR_LOCK.lock();
                StderrLock(::std::marker::PhantomData)
            }
        }
        impl Drop for StderrLock<'_> {
            fn drop(&mut self) {
                ERR_LOCK.unlock();
            }
        }
        impl Write for StderrLock<'_> {
            fn write(&mut self, buf: &[u8]) -> Result<usize> {
                err_write(buf)
            }
            fn flush(&mut self) -> Result<()> {
                Ok(())
            }
        }
        impl Write for Stderr {
            fn write(&mut self, buf: &[u8]) -> Result<usize> {
                let _l = self.lock();
                err_write(buf)
            }
            fn flush(&mut self) -> Result<()> {
                Ok(())
            }
        }

        fn in_read(buf: &mut [u8]) -> Result<usize> {
            if !crate::rt::enabled() || crate::rt::me().is_none() {
                return ::std::io::stdin().read(buf);
            }
            crate::point("stdin", &format!("stdin.read {}", buf.len()));
            match crate::fault("stdin.read", "") {
                Some((k, _)) if k == "EINTR" => Err(crate::io_err("EINTR")),
                Some((k, _)) if k == "EIO" => Err(crate::io_err("EIO")),
                Some((k, arg)) if k == "stall" => {
                    // the producer pauses (for `arg` simulated seconds) before the next bytes arrive
                    crate::rt::sleep_ns(arg.saturating_mul(1_000_000_000));
                    let r = ::std::io::stdin().read(buf)?;
                    crate::note(&format!("stdin.read -> {r} (after a stall)"));
                    Ok(r)
                }
                Some((k, arg)) if k == "short" => {
                    let n = (arg as usize).clamp(1, buf.len().max(1)).min(buf.len());
                    let r = ::std::io::stdin().read(&mut buf[..n])?;
                    crate::note(&format!("stdin.read -> {r}"));
                    Ok(r)
                }
                _ => {
                    let r = ::std::io::stdin().read(buf)?;
                    crate::note(&format!("stdin.read -> {r}"));
                    Ok(r)
                }
            }
        }
        pub struct Stdin;
        pub struct StdinLock<'a>(::std::marker::PhantomData<&'a ()>);
        pub fn stdin() -> Stdin {
            Stdin
        }
        impl Stdin {
            pub fn lock(&self) -> StdinLock<'static> {
                IN_LOCK.lock();
                StdinLock(::std::marker::PhantomData)
            }
            pub fn read_line(&self, buf: &mut String) -> Result<usize> {
                crate::point("stdin", "stdin.read_line");
                ::std::io::stdin().read_line(buf)
            }
        }
        impl Drop for StdinLock<'_> {
            fn drop(&mut self) {
                IN_LOCK.unlock();
            }
        }
        impl Read for Stdin {
            fn read(&mut self, buf: &mut [u8]) -> Result<usize> {
                in_read(buf)
            }
        }
        impl Read for StdinLock<'_> {
            fn read(&mut self, buf: &mut [u8]) -> Result<usize> {
                in_read(buf)
            }
        }
    }

    pub mod thread {
        pub use ::std::thread::*;
        use ::std::sync::{Arc, Mutex as StdMutex};

        pub struct Builder {
            name: Option<String>,
            stack: Option<usize>,
        }
        pub struct JoinHandle<T> {
            tid: usize,
            slot: Arc<StdMutex<Option<::std::thread::Result<T>>>>,
        }
        impl Builder {
            #[allow(clippy::new_without_default)]
            pub fn new() -> Builder {
                Builder { name: None, stack: None }
            }
            pub fn name(mut self, n: String) -> Builder {
                self.name = Some(n);
                self
            }
            pub fn stack_size(mut self, s: usize) -> Builder {
                self.stack = Some(s);
                self
            }
            pub fn spawn<F, T>(self, f: F) -> ::std::io::Result<JoinHandle<T>>
            where
                F: FnOnce() -> T + Send + 'static,
                T: Send + 'static,
            {
                let slot = Arc::new(StdMutex::new(None));
                let s2 = slot.clone();
                let tid = crate::rt::spawn(self.name, self.stack, move || {
                    let r = ::std::panic::catch_unwind(::std::panic::AssertUnwindSafe(f));
                    *s2.lock().unwrap_or_else(|e| e.into_inner()) = Some(r);
                })?;
                Ok(JoinHandle { tid, slot })
            }
        }
        pub fn spawn<F, T>(f: F) -> JoinHandle<T>
        where
            F: FnOnce() -> T + Send + 'static,
            T: Send + 'static,
        {
            Builder::new().spawn(f).expect("failed to spawn thread")
        }
        impl<T> JoinHandle<T> {
            pub fn join(self) -> ::std::thread::Result<T> {
                loop {
                    crate::point("", &format!("thread.join {}", self.tid));
                    if crate::rt::is_finished(self.tid) {
                        break;
                    }
                    crate::rt::block(crate::rt::JOIN_RES_BASE + self.tid as u64, "thread.join.blocked");
                }
                let r = self.slot.lock().unwrap_or_else(|e| e.into_inner()).take();
                r.expect("joined thread left no result")
            }
            pub fn is_finished(&self) -> bool {
                crate::point("", &format!("thread.is_finished {}", self.tid));
                crate::rt::is_finished(self.tid)
            }
        }
        /// Scoped threads: real `std::thread::scope` underneath, every spawned thread registered
        /// with the simulator, and all of them joined *in the simulator* before the real scope's
        /// implicit join (which would otherwise block for real while holding the baton).
        #[repr(transparent)]
        pub struct Scope<'scope, 'env: 'scope>(::std::thread::Scope<'scope, 'env>);
        pub struct ScopedJoinHandle<'scope, T> {
            tid: usize,
            real: ::std::thread::ScopedJoinHandle<'scope, T>,
        }
        static SCOPE_TASKS: StdMutex<Vec<(usize, usize)>> = StdMutex::new(Vec::new()); // (scope address, tid)

        pub fn scope<'env, F, T>(f: F) -> T
        where
            F: for<'scope> FnOnce(&'scope Scope<'scope, 'env>) -> T,
        {
            ::std::thread::scope(|rs| {
                // SAFETY: Scope is a transparent wrapper around the real Scope
                let s: &Scope<'_, 'env> = unsafe { &*(rs as *const ::std::thread::Scope<'_, 'env> as *const Scope<'_, 'env>) };
                let key = rs as *const _ as usize;
                let r = f(s);
                let mine: Vec<usize> = {
                    let mut all = SCOPE_TASKS.lock().unwrap_or_else(|e| e.into_inner());
                    let mine = all.iter().filter(|(k, _)| *k == key).map(|(_, t)| *t).collect();
                    all.retain(|(k, _)| *k != key);
                    mine
                };
                for tid in mine {
                    crate::rt::join_task(tid);
                }
                r
            })
        }
        impl<'scope, 'env> Scope<'scope, 'env> {
            pub fn spawn<F, T>(&'scope self, f: F) -> ScopedJoinHandle<'scope, T>
            where
                F: FnOnce() -> T + Send + 'scope,
                T: Send + 'scope,
            {
                let tid = crate::rt::register_task(None);
                SCOPE_TASKS.lock().unwrap_or_else(|e| e.into_inner()).push((&self.0 as *const _ as usize, tid));
                let real = self.0.spawn(move || {
                    let _guard = crate::rt::task_entry(tid);
                    f()
                });
                crate::rt::task_spawned(tid, real.thread().clone());
                ScopedJoinHandle { tid, real }
            }
        }
        impl<'scope, T> ScopedJoinHandle<'scope, T> {
            pub fn join(self) -> ::std::thread::Result<T> {
                crate::rt::join_task(self.tid);
                self.real.join()
            }
            pub fn is_finished(&self) -> bool {
                crate::point("", &format!("thread.is_finished {}", self.tid));
                crate::rt::is_finished(self.tid)
            }
            pub fn thread(&self) -> &::std::thread::Thread {
                self.real.thread()
            }
        }

        pub fn sleep(d: ::std::time::Duration) {
            crate::point("", "thread.sleep");
            crate::rt::sleep_ns(d.as_nanos().min(u64::MAX as u128) as u64);
        }
        pub fn yield_now() {
            crate::point("", "thread.yield");
        }
    }

    pub mod sync {
        pub use ::std::sync::*;
        use ::std::sync::atomic::{AtomicBool, AtomicU32 as RealU32, AtomicU64, Ordering as O};

        fn res_of(cell: &AtomicU64) -> u64 {
            let r = cell.load(O::SeqCst);
            if r != 0 {
                return r;
            }
            let n = crate::rt::new_resource();
            cell.store(n, O::SeqCst);
            n
        }

        pub struct Mutex<T: ?Sized> {
            locked: AtomicBool,
            poisoned: AtomicBool,
            res: AtomicU64,
            data: ::std::sync::Mutex<T>,
        }
        pub struct MutexGuard<'a, T: ?Sized + 'a> {
            m: &'a Mutex<T>,
            g: Option<::std::sync::MutexGuard<'a, T>>,
            /// as in std: a lock taken while already unwinding does not poison on release
            was_panicking: bool,
        }
        impl<T> Mutex<T> {
            pub const fn new(t: T) -> Self {
                Mutex {
                    data: ::std::sync::Mutex::new(t),
                    locked: AtomicBool::new(false),
                    poisoned: AtomicBool::new(false),
                    res: AtomicU64::new(0),
                }
            }
            pub fn into_inner(self) -> LockResult<T> {
                Ok(self.data.into_inner().unwrap_or_else(|e| e.into_inner()))
            }
        }
        impl<T: ?Sized> Mutex<T> {
            fn take(&self) -> MutexGuard<'_, T> {
                let g = self.data.lock().unwrap_or_else(|e| e.into_inner());
                MutexGuard { m: self, g: Some(g), was_panicking: ::std::thread::panicking() }
            }
            fn wrap<'a>(&'a self, g: MutexGuard<'a, T>) -> LockResult<MutexGuard<'a, T>> {
                if self.poisoned.load(O::SeqCst) {
                    Err(PoisonError::new(g))
                } else {
                    Ok(g)
                }
            }
            pub fn lock(&self) -> LockResult<MutexGuard<'_, T>> {
                let r = res_of(&self.res);
                loop {
                    crate::point(&format!("m{r}"), &format!("mutex.lock m{r}"));
                    if !self.locked.swap(true, O::SeqCst) {
                        return self.wrap(self.take());
                    }
                    crate::rt::block(r, &format!("mutex.blocked m{r}"));
                }
            }
            pub fn try_lock(&self) -> TryLockResult<MutexGuard<'_, T>> {
                let r = res_of(&self.res);
                crate::point(&format!("m{r}"), &format!("mutex.try_lock m{r}"));
                if !self.locked.swap(true, O::SeqCst) {
                    match self.wrap(self.take()) {
                        Ok(g) => Ok(g),
                        Err(e) => Err(TryLockError::Poisoned(e)),
                    }
                } else {
                    Err(TryLockError::WouldBlock)
                }
            }
            pub fn is_poisoned(&self) -> bool {
                self.poisoned.load(O::SeqCst)
            }
            pub fn get_mut(&mut self) -> LockResult<&mut T> {
                Ok(self.data.get_mut().unwrap_or_else(|e| e.into_inner()))
            }
        }
        impl<T: Default> Default for Mutex<T> {
            fn default() -> Self {
                Mutex::new(T::default())
            }
        }
        impl<T> From<T> for Mutex<T> {
            fn from(t: T) -> Self {
                Mutex::new(t)
            }
        }
        impl<T: ?Sized> ::std::fmt::Debug for Mutex<T> {
            fn fmt(&self, f: &mut ::std::fmt::Formatter<'_>) -> ::std::fmt::Result {
                f.write_str("Mutex { .. }")
            }
        }
        impl<'a, T: ?Sized> ::std::ops::Deref for MutexGuard<'a, T> {
            type Target = T;
            fn deref(&self) -> &T {
                self.g.as_ref().unwrap()
            }
        }
        impl<'a, T: ?Sized> ::std::ops::DerefMut for MutexGuard<'a, T> {
            fn deref_mut(&mut self) -> &mut T {
                self.g.as_mut().unwrap()
            }
        }
        impl<'a, T: ?Sized> Drop for MutexGuard<'a, T> {
            fn drop(&mut self) {
                if !self.was_panicking && ::std::thread::panicking() {
                    self.m.poisoned.store(true, O::SeqCst);
                }
                self.g.take();
                self.m.locked.store(false, O::SeqCst);
                crate::rt::wake_all(res_of(&self.m.res));
            }
        }

        pub struct Condvar {
            res: AtomicU64,
        }
        impl Condvar {
            pub const fn new() -> Self {
                Condvar { res: AtomicU64::new(0) }
            }
            pub fn wait<'a, T>(&self, guard: MutexGuard<'a, T>) -> LockResult<MutexGuard<'a, T>> {
                let m = guard.m;
                let r = res_of(&self.res);
                drop(guard);
                // release + wait is atomic: only the baton holder runs
                crate::rt::block(r, &format!("condvar.wait c{r}"));
                m.lock()
            }
            pub fn wait_while<'a, T, F: FnMut(&mut T) -> bool>(
                &self,
                mut guard: MutexGuard<'a, T>,
                mut cond: F,
            ) -> LockResult<MutexGuard<'a, T>> {
                while cond(&mut *guard) {
                    guard = match self.wait(guard) {
                        Ok(g) => g,
                        Err(e) => e.into_inner(),
                    };
                }
                Ok(guard)
            }
            pub fn notify_all(&self) {
                let r = res_of(&self.res);
                crate::point(&format!("c{r}"), &format!("condvar.notify_all c{r}"));
                crate::rt::wake_all(r);
            }
            pub fn notify_one(&self) {
                let r = res_of(&self.res);
                crate::point(&format!("c{r}"), &format!("condvar.notify_one c{r}"));
                crate::rt::wake_one(r);
            }
        }
        /// Result of a timed wait (std's has no public constructor, so the facade has its own).
        #[derive(Debug, PartialEq, Eq, Copy, Clone)]
        pub struct WaitTimeoutResult(bool);
        impl WaitTimeoutResult {
            pub fn timed_out(&self) -> bool {
                self.0
            }
        }
        impl Condvar {
            pub fn wait_timeout<'a, T>(
                &self,
                guard: MutexGuard<'a, T>,
                dur: ::std::time::Duration,
            ) -> LockResult<(MutexGuard<'a, T>, WaitTimeoutResult)> {
                let m = guard.m;
                let r = res_of(&self.res);
                drop(guard);
                let to = crate::rt::block_timed(r, &format!("condvar.wait_timeout c{r}"), dur.as_nanos().min(u64::MAX as u128) as u64);
                match m.lock() {
                    Ok(g) => Ok((g, WaitTimeoutResult(to))),
                    Err(e) => Err(PoisonError::new((e.into_inner(), WaitTimeoutResult(to)))),
                }
            }
            pub fn wait_timeout_while<'a, T, F: FnMut(&mut T) -> bool>(
                &self,
                mut guard: MutexGuard<'a, T>,
                dur: ::std::time::Duration,
                mut cond: F,
            ) -> LockResult<(MutexGuard<'a, T>, WaitTimeoutResult)> {
                loop {
                    if !cond(&mut *guard) {
                        return Ok((guard, WaitTimeoutResult(false)));
                    }
                    let (g, to) = match self.wait_timeout(guard, dur) {
                        Ok(x) => x,
                        Err(e) => e.into_inner(),
                    };
                    guard = g;
                    if to.timed_out() {
                        let still = cond(&mut *guard);
                        return Ok((guard, WaitTimeoutResult(still)));
                    }
                }
            }
        }

        /// One-time initialisation on the simulated scheduler: a second caller blocks (in the
        /// simulator) while the first is inside the closure, instead of blocking for real on a
        /// thread that is parked at a seam.
        pub struct Once {
            state: ::std::sync::atomic::AtomicU8, // 0 incomplete, 1 running, 2 complete, 3 poisoned
            res: AtomicU64,
        }
        pub use ::std::sync::OnceState;
        impl Once {
            pub const fn new() -> Once {
                Once { state: ::std::sync::atomic::AtomicU8::new(0), res: AtomicU64::new(0) }
            }
            pub fn is_completed(&self) -> bool {
                self.state.load(O::SeqCst) == 2
            }
            pub fn call_once<F: FnOnce()>(&self, f: F) {
                if self.state.load(O::SeqCst) == 2 {
                    return;
                }
                let r = res_of(&self.res);
                loop {
                    crate::point(&format!("once{r}"), &format!("once.call once{r}"));
                    match self.state.load(O::SeqCst) {
                        2 => return,
                        3 => panic!("Once instance has previously been poisoned"),
                        0 => {
                            self.state.store(1, O::SeqCst);
                            struct Reset<'a>(&'a Once, u64);
                            impl Drop for Reset<'_> {
                                fn drop(&mut self) {
                                    if self.0.state.load(O::SeqCst) == 1 {
                                        self.0.state.store(3, O::SeqCst);
                                    }
                                    crate::rt::wake_all(self.1);
                                }
                            }
                            let guard = Reset(self, r);
                            f();
                            self.state.store(2, O::SeqCst);
                            drop(guard);
                            return;
                        }
                        _ => crate::rt::block(r, &format!("once.blocked once{r}")),
                    }
                }
            }
        }
        impl Default for Once {
            fn default() -> Self {
                Once::new()
            }
        }

        pub struct OnceLock<T> {
            once: Once,
            cell: ::std::sync::OnceLock<T>,
        }
        impl<T> OnceLock<T> {
            pub const fn new() -> Self {
                OnceLock { once: Once::new(), cell: ::std::sync::OnceLock::new() }
            }
            pub fn get(&self) -> Option<&T> {
                self.cell.get()
            }
            pub fn get_mut(&mut self) -> Option<&mut T> {
                self.cell.get_mut()
            }
            pub fn set(&self, v: T) -> Result<(), T> {
                let mut v = Some(v);
                self.once.call_once(|| {
                    let _ = self.cell.set(v.take().unwrap());
                });
                match v {
                    None => Ok(()),
                    Some(v) => Err(v),
                }
            }
            pub fn get_or_init<F: FnOnce() -> T>(&self, f: F) -> &T {
                if let Some(v) = self.cell.get() {
                    return v;
                }
                self.once.call_once(|| {
                    let _ = self.cell.set(f());
                });
                self.cell.get().expect("OnceLock initialised")
            }
            pub fn into_inner(self) -> Option<T> {
                self.cell.into_inner()
            }
            pub fn take(&mut self) -> Option<T> {
                self.once = Once::new();
                self.cell.take()
            }
        }
        impl<T> Default for OnceLock<T> {
            fn default() -> Self {
                OnceLock::new()
            }
        }

        pub struct LazyLock<T, F = fn() -> T> {
            cell: OnceLock<T>,
            init: ::std::sync::Mutex<Option<F>>,
        }
        impl<T, F: FnOnce() -> T> LazyLock<T, F> {
            pub const fn new(f: F) -> Self {
                LazyLock { cell: OnceLock::new(), init: ::std::sync::Mutex::new(Some(f)) }
            }
            pub fn force(this: &Self) -> &T {
                this.cell.get_or_init(|| {
                    let f = this.init.lock().unwrap_or_else(|e| e.into_inner()).take().expect("LazyLock initialiser missing");
                    f()
                })
            }
        }
        impl<T, F: FnOnce() -> T> ::std::ops::Deref for LazyLock<T, F> {
            type Target = T;
            fn deref(&self) -> &T {
                LazyLock::force(self)
            }
        }

        pub struct Barrier {
            n: usize,
            st: ::std::sync::Mutex<(usize, u64)>, // (arrived, generation)
            res: AtomicU64,
        }
        pub struct BarrierWaitResult(bool);
        impl BarrierWaitResult {
            pub fn is_leader(&self) -> bool {
                self.0
            }
        }
        impl Barrier {
            pub const fn new(n: usize) -> Barrier {
                Barrier { n, st: ::std::sync::Mutex::new((0, 0)), res: AtomicU64::new(0) }
            }
            pub fn wait(&self) -> BarrierWaitResult {
                let r = res_of(&self.res);
                crate::point(&format!("bar{r}"), &format!("barrier.wait bar{r}"));
                let gen = {
                    let mut st = self.st.lock().unwrap_or_else(|e| e.into_inner());
                    st.0 += 1;
                    if st.0 >= self.n {
                        st.0 = 0;
                        st.1 += 1;
                        drop(st);
                        crate::rt::wake_all(r);
                        return BarrierWaitResult(true);
                    }
                    st.1
                };
                loop {
                    crate::rt::block(r, &format!("barrier.blocked bar{r}"));
                    if self.st.lock().unwrap_or_else(|e| e.into_inner()).1 != gen {
                        return BarrierWaitResult(false);
                    }
                }
            }
        }

        impl Default for Condvar {
            fn default() -> Self {
                Condvar::new()
            }
        }
        impl ::std::fmt::Debug for Condvar {
            fn fmt(&self, f: &mut ::std::fmt::Formatter<'_>) -> ::std::fmt::Result {
                f.write_str("Condvar { .. }")
            }
        }

        /// RwLock: readers share, a writer excludes; state kept beside a real RwLock that is
        /// never contended (only the baton holder runs).
        pub struct RwLock<T: ?Sized> {
            readers: RealU32,
            writer: AtomicBool,
            res: AtomicU64,
            data: ::std::sync::RwLock<T>,
        }
        pub struct RwLockReadGuard<'a, T: ?Sized + 'a> {
            l: &'a RwLock<T>,
            g: Option<::std::sync::RwLockReadGuard<'a, T>>,
        }
        pub struct RwLockWriteGuard<'a, T: ?Sized + 'a> {
            l: &'a RwLock<T>,
            g: Option<::std::sync::RwLockWriteGuard<'a, T>>,
        }
        impl<T> RwLock<T> {
            pub const fn new(t: T) -> Self {
                RwLock {
                    readers: RealU32::new(0),
                    writer: AtomicBool::new(false),
                    res: AtomicU64::new(0),
                    data: ::std::sync::RwLock::new(t),
                }
            }
            pub fn into_inner(self) -> LockResult<T> {
                Ok(self.data.into_inner().unwrap_or_else(|e| e.into_inner()))
            }
        }
        impl<T: ?Sized> RwLock<T> {
            pub fn read(&self) -> LockResult<RwLockReadGuard<'_, T>> {
                let r = res_of(&self.res);
                loop {
                    crate::point(&format!("rw{r}"), &format!("rwlock.read rw{r}"));
                    if !self.writer.load(O::SeqCst) {
                        self.readers.fetch_add(1, O::SeqCst);
                        let g = self.data.read().unwrap_or_else(|e| e.into_inner());
                        return Ok(RwLockReadGuard { l: self, g: Some(g) });
                    }
                    crate::rt::block(r, &format!("rwlock.blocked rw{r}"));
                }
            }
            pub fn write(&self) -> LockResult<RwLockWriteGuard<'_, T>> {
                let r = res_of(&self.res);
                loop {
                    crate::point(&format!("rw{r}"), &format!("rwlock.write rw{r}"));
                    if !self.writer.load(O::SeqCst) && self.readers.load(O::SeqCst) == 0 {
                        self.writer.store(true, O::SeqCst);
                        let g = self.data.write().unwrap_or_else(|e| e.into_inner());
                        return Ok(RwLockWriteGuard { l: self, g: Some(g) });
                    }
                    crate::rt::block(r, &format!("rwlock.blocked rw{r}"));
                }
            }
        }
        impl<T: Default> Default for RwLock<T> {
            fn default() -> Self {
                RwLock::new(T::default())
            }
        }
        impl<'a, T: ?Sized> ::std::ops::Deref for RwLockReadGuard<'a, T> {
            type Target = T;
            fn deref(&self) -> &T {
                self.g.as_ref().unwrap()
            }
        }
        impl<'a, T: ?Sized> Drop for RwLockReadGuard<'a, T> {
            fn drop(&mut self) {
                self.g.take();
                self.l.readers.fetch_sub(1, O::SeqCst);
                crate::rt::wake_all(res_of(&self.l.res));
            }
        }
        impl<'a, T: ?Sized> ::std::ops::Deref for RwLockWriteGuard<'a, T> {
            type Target = T;
            fn deref(&self) -> &T {
                self.g.as_ref().unwrap()
            }
        }
        impl<'a, T: ?Sized> ::std::ops::DerefMut for RwLockWriteGuard<'a, T> {
            fn deref_mut(&mut self) -> &mut T {
                self.g.as_mut().unwrap()
            }
        }
        impl<'a, T: ?Sized> Drop for RwLockWriteGuard<'a, T> {
            fn drop(&mut self) {
                self.g.take();
                self.l.writer.store(false, O::SeqCst);
                crate::rt::wake_all(res_of(&self.l.res));
            }
        }

        pub mod mpsc {
            use super::res_of;
            use ::std::collections::VecDeque;
            pub use ::std::sync::mpsc::{RecvError, RecvTimeoutError, SendError, TryRecvError, TrySendError};
            use ::std::sync::atomic::{AtomicBool, AtomicU64, AtomicUsize, Ordering as O};
            use ::std::sync::Arc;

            struct Chan<T> {
                q: ::std::sync::Mutex<VecDeque<T>>,
                senders: AtomicUsize,
                rx_alive: AtomicBool,
                res: AtomicU64,
                /// 0 = unbounded
                cap: usize,
            }
            pub struct Sender<T>(Arc<Chan<T>>);
            pub struct Receiver<T>(Arc<Chan<T>>);
            pub fn channel<T>() -> (Sender<T>, Receiver<T>) {
                let c = Arc::new(Chan {
                    q: ::std::sync::Mutex::new(VecDeque::new()),
                    senders: AtomicUsize::new(1),
                    rx_alive: AtomicBool::new(true),
                    res: AtomicU64::new(0),
                    cap: 0,
                });
                (Sender(c.clone()), Receiver(c))
            }
            /// Bounded channel (a bound of 0 is approximated by a bound of 1).
            pub struct SyncSender<T>(Arc<Chan<T>>);
            pub fn sync_channel<T>(bound: usize) -> (SyncSender<T>, Receiver<T>) {
                let c = Arc::new(Chan {
                    q: ::std::sync::Mutex::new(VecDeque::new()),
                    senders: AtomicUsize::new(1),
                    rx_alive: AtomicBool::new(true),
                    res: AtomicU64::new(0),
                    cap: bound.max(1),
                });
                (SyncSender(c.clone()), Receiver(c))
            }
            impl<T> SyncSender<T> {
                pub fn send(&self, t: T) -> Result<(), SendError<T>> {
                    let r = res_of(&self.0.res);
                    loop {
                        crate::point(&format!("ch{r}"), &format!("chan.send ch{r}"));
                        if !self.0.rx_alive.load(O::SeqCst) {
                            return Err(SendError(t));
                        }
                        {
                            let mut q = self.0.q.lock().unwrap_or_else(|e| e.into_inner());
                            if q.len() < self.0.cap {
                                q.push_back(t);
                                drop(q);
                                crate::rt::wake_all(r);
                                return Ok(());
                            }
                        }
                        crate::rt::block(r, &format!("chan.send.blocked ch{r}"));
                    }
                }
                pub fn try_send(&self, t: T) -> Result<(), TrySendError<T>> {
                    let r = res_of(&self.0.res);
                    crate::point(&format!("ch{r}"), &format!("chan.try_send ch{r}"));
                    if !self.0.rx_alive.load(O::SeqCst) {
                        return Err(TrySendError::Disconnected(t));
                    }
                    let mut q = self.0.q.lock().unwrap_or_else(|e| e.into_inner());
                    if q.len() < self.0.cap {
                        q.push_back(t);
                        drop(q);
                        crate::rt::wake_all(r);
                        Ok(())
                    } else {
                        Err(TrySendError::Full(t))
                    }
                }
            }
            impl<T> Clone for SyncSender<T> {
                fn clone(&self) -> Self {
                    self.0.senders.fetch_add(1, O::SeqCst);
                    SyncSender(self.0.clone())
                }
            }
            impl<T> Drop for SyncSender<T> {
                fn drop(&mut self) {
                    if self.0.senders.fetch_sub(1, O::SeqCst) == 1 {
                        let r = res_of(&self.0.res);
                        crate::note(&format!("chan.disconnected ch{r}"));
                        crate::rt::wake_all(r);
                    }
                }
            }
            impl<T> Sender<T> {
                pub fn send(&self, t: T) -> Result<(), SendError<T>> {
                    let r = res_of(&self.0.res);
                    crate::point(&format!("ch{r}"), &format!("chan.send ch{r}"));
                    if !self.0.rx_alive.load(O::SeqCst) {
                        return Err(SendError(t));
                    }
                    self.0.q.lock().unwrap_or_else(|e| e.into_inner()).push_back(t);
                    crate::rt::wake_all(r);
                    Ok(())
                }
            }
            impl<T> Clone for Sender<T> {
                fn clone(&self) -> Self {
                    self.0.senders.fetch_add(1, O::SeqCst);
                    Sender(self.0.clone())
                }
            }
            impl<T> Drop for Sender<T> {
                fn drop(&mut self) {
                    if self.0.senders.fetch_sub(1, O::SeqCst) == 1 {
                        let r = res_of(&self.0.res);
                        crate::note(&format!("chan.disconnected ch{r}"));
                        crate::rt::wake_all(r);
                    }
                }
            }
            impl<T> Receiver<T> {
                pub fn recv(&self) -> Result<T, RecvError> {
                    let r = res_of(&self.0.res);
                    loop {
                        crate::point(&format!("ch{r}"), &format!("chan.recv ch{r}"));
                        if let Some(v) = self.0.q.lock().unwrap_or_else(|e| e.into_inner()).pop_front() {
                            if self.0.cap > 0 {
                                crate::rt::wake_all(r);
                            }
                            return Ok(v);
                        }
                        if self.0.senders.load(O::SeqCst) == 0 {
                            return Err(RecvError);
                        }
                        crate::rt::block(r, &format!("chan.recv.blocked ch{r}"));
                    }
                }
                pub fn recv_timeout(&self, d: ::std::time::Duration) -> Result<T, RecvTimeoutError> {
                    let deadline = crate::rt::now_ns().saturating_add(d.as_nanos().min(u64::MAX as u128) as u64);
                    let r = res_of(&self.0.res);
                    loop {
                        crate::point(&format!("ch{r}"), &format!("chan.recv_timeout ch{r}"));
                        if let Some(v) = self.0.q.lock().unwrap_or_else(|e| e.into_inner()).pop_front() {
                            if self.0.cap > 0 {
                                crate::rt::wake_all(r);
                            }
                            return Ok(v);
                        }
                        if self.0.senders.load(O::SeqCst) == 0 {
                            return Err(RecvTimeoutError::Disconnected);
                        }
                        let left = deadline.saturating_sub(crate::rt::now_ns());
                        if left == 0 || crate::rt::block_timed(r, &format!("chan.recv_timeout.blocked ch{r}"), left) {
                            return Err(RecvTimeoutError::Timeout);
                        }
                    }
                }
                pub fn try_recv(&self) -> Result<T, TryRecvError> {
                    let r = res_of(&self.0.res);
                    crate::point(&format!("ch{r}"), &format!("chan.try_recv ch{r}"));
                    if let Some(v) = self.0.q.lock().unwrap_or_else(|e| e.into_inner()).pop_front() {
                        return Ok(v);
                    }
                    if self.0.senders.load(O::SeqCst) == 0 {
                        Err(TryRecvError::Disconnected)
                    } else {
                        Err(TryRecvError::Empty)
                    }
                }
                pub fn iter(&self) -> Iter<'_, T> {
                    Iter(self)
                }
            }
            impl<T> Drop for Receiver<T> {
                fn drop(&mut self) {
                    self.0.rx_alive.store(false, O::SeqCst);
                }
            }
            pub struct Iter<'a, T>(&'a Receiver<T>);
            impl<'a, T> Iterator for Iter<'a, T> {
                type Item = T;
                fn next(&mut self) -> Option<T> {
                    self.0.recv().ok()
                }
            }
            pub struct IntoIter<T>(Receiver<T>);
            impl<T> Iterator for IntoIter<T> {
                type Item = T;
                fn next(&mut self) -> Option<T> {
                    self.0.recv().ok()
                }
            }
            impl<T> IntoIterator for Receiver<T> {
                type Item = T;
                type IntoIter = IntoIter<T>;
                fn into_iter(self) -> IntoIter<T> {
                    IntoIter(self)
                }
            }
            impl<'a, T> IntoIterator for &'a Receiver<T> {
                type Item = T;
                type IntoIter = Iter<'a, T>;
                fn into_iter(self) -> Iter<'a, T> {
                    self.iter()
                }
            }
        }

        pub mod atomic {
            pub use ::std::sync::atomic::{compiler_fence, fence, AtomicPtr, Ordering};
            use ::std::sync::atomic::AtomicU32 as IdCell;

            fn id_of(cell: &IdCell) -> u32 {
                let r = cell.load(Ordering::SeqCst);
                if r != 0 {
                    return r;
                }
                let n = crate::rt::new_atomic_id();
                cell.store(n, Ordering::SeqCst);
                n
            }

            macro_rules! pt {
                ($self:ident, $ty:literal, $op:literal, $($arg:tt)*) => {{
                    if crate::rt::me().is_some() && crate::rt::enabled() {
                        let id = id_of(&$self.1);
                        crate::point(&format!("a#{id}"), &format!(concat!("atomic.", $ty, "#{}.", $op, " {}"), id, format!($($arg)*)));
                    }
                }};
            }
            macro_rules! got {
                ($v:expr) => {{
                    let v = $v;
                    if crate::rt::me().is_some() && crate::rt::enabled() {
                        crate::note(&format!("-> {:?}", v));
                    }
                    v
                }};
            }

            macro_rules! sim_atomic_common {
                ($name:ident, $real:ty, $t:ty, $lbl:literal) => {
                    pub struct $name($real, IdCell);
                    impl $name {
                        pub const fn new(v: $t) -> Self {
                            Self(<$real>::new(v), IdCell::new(0))
                        }
                        pub fn load(&self, o: Ordering) -> $t {
                            pt!(self, $lbl, "load", "");
                            got!(self.0.load(o))
                        }
                        pub fn store(&self, v: $t, o: Ordering) {
                            pt!(self, $lbl, "store", "{:?}", v);
                            self.0.store(v, o)
                        }
                        pub fn swap(&self, v: $t, o: Ordering) -> $t {
                            pt!(self, $lbl, "swap", "{:?}", v);
                            got!(self.0.swap(v, o))
                        }
                        pub fn compare_exchange(&self, c: $t, n: $t, s: Ordering, f: Ordering) -> Result<$t, $t> {
                            pt!(self, $lbl, "cas", "{:?} {:?}", c, n);
                            got!(self.0.compare_exchange(c, n, s, f))
                        }
                        pub fn compare_exchange_weak(&self, c: $t, n: $t, s: Ordering, f: Ordering) -> Result<$t, $t> {
                            pt!(self, $lbl, "cas", "{:?} {:?}", c, n);
                            got!(self.0.compare_exchange(c, n, s, f))
                        }
                        #[allow(deprecated)]
                        pub fn compare_and_swap(&self, c: $t, n: $t, o: Ordering) -> $t {
                            pt!(self, $lbl, "cas", "{:?} {:?}", c, n);
                            let _ = o;
                            got!(match self.0.compare_exchange(c, n, Ordering::SeqCst, Ordering::SeqCst) {
                                Ok(v) => v,
                                Err(v) => v,
                            })
                        }
                        pub fn fetch_and(&self, v: $t, o: Ordering) -> $t {
                            pt!(self, $lbl, "fetch_and", "{:?}", v);
                            got!(self.0.fetch_and(v, o))
                        }
                        pub fn fetch_or(&self, v: $t, o: Ordering) -> $t {
                            pt!(self, $lbl, "fetch_or", "{:?}", v);
                            got!(self.0.fetch_or(v, o))
                        }
                        pub fn fetch_xor(&self, v: $t, o: Ordering) -> $t {
                            pt!(self, $lbl, "fetch_xor", "{:?}", v);
                            got!(self.0.fetch_xor(v, o))
                        }
                        pub fn fetch_update<F: FnMut($t) -> Option<$t>>(
                            &self,
                            s: Ordering,
                            f: Ordering,
                            mut func: F,
                        ) -> Result<$t, $t> {
                            // a CAS loop, one scheduling point per attempt
                            let mut prev = self.load(f);
                            while let Some(next) = func(prev) {
                                match self.compare_exchange_weak(prev, next, s, f) {
                                    x @ Ok(_) => return x,
                                    Err(p) => prev = p,
                                }
                            }
                            Err(prev)
                        }
                        pub fn into_inner(self) -> $t {
                            self.0.into_inner()
                        }
                        pub fn get_mut(&mut self) -> &mut $t {
                            self.0.get_mut()
                        }
                    }
                    impl Default for $name {
                        fn default() -> Self {
                            Self::new(Default::default())
                        }
                    }
                    impl ::std::fmt::Debug for $name {
                        fn fmt(&self, f: &mut ::std::fmt::Formatter<'_>) -> ::std::fmt::Result {
                            ::std::fmt::Debug::fmt(&self.0, f)
                        }
                    }
                    impl From<$t> for $name {
                        fn from(v: $t) -> Self {
                            Self::new(v)
                        }
                    }
                };
            }
            macro_rules! sim_atomic_int {
                ($name:ident, $real:ty, $t:ty, $lbl:literal) => {
                    sim_atomic_common!($name, $real, $t, $lbl);
                    impl $name {
                        pub fn fetch_add(&self, v: $t, o: Ordering) -> $t {
                            pt!(self, $lbl, "fetch_add", "{:?}", v);
                            got!(self.0.fetch_add(v, o))
                        }
                        pub fn fetch_sub(&self, v: $t, o: Ordering) -> $t {
                            pt!(self, $lbl, "fetch_sub", "{:?}", v);
                            got!(self.0.fetch_sub(v, o))
                        }
                        pub fn fetch_max(&self, v: $t, o: Ordering) -> $t {
                            pt!(self, $lbl, "fetch_max", "{:?}", v);
                            got!(self.0.fetch_max(v, o))
                        }
                        pub fn fetch_min(&self, v: $t, o: Ordering) -> $t {
                            pt!(self, $lbl, "fetch_min", "{:?}", v);
                            got!(self.0.fetch_min(v, o))
                        }
                        pub fn fetch_nand(&self, v: $t, o: Ordering) -> $t {
                            pt!(self, $lbl, "fetch_nand", "{:?}", v);
                            got!(self.0.fetch_nand(v, o))
                        }
                    }
                };
            }
            sim_atomic_int!(AtomicI8, ::std::sync::atomic::AtomicI8, i8, "i8");
            sim_atomic_int!(AtomicU8, ::std::sync::atomic::AtomicU8, u8, "u8");
            sim_atomic_int!(AtomicI16, ::std::sync::atomic::AtomicI16, i16, "i16");
            sim_atomic_int!(AtomicU16, ::std::sync::atomic::AtomicU16, u16, "u16");
            sim_atomic_int!(AtomicI32, ::std::sync::atomic::AtomicI32, i32, "i32");
            sim_atomic_int!(AtomicU32, ::std::sync::atomic::AtomicU32, u32, "u32");
            sim_atomic_int!(AtomicI64, ::std::sync::atomic::AtomicI64, i64, "i64");
            sim_atomic_int!(AtomicU64, ::std::sync::atomic::AtomicU64, u64, "u64");
            sim_atomic_int!(AtomicIsize, ::std::sync::atomic::AtomicIsize, isize, "isize");
            sim_atomic_int!(AtomicUsize, ::std::sync::atomic::AtomicUsize, usize, "usize");
            sim_atomic_common!(AtomicBool, ::std::sync::atomic::AtomicBool, bool, "bool");
        }
    }
}
