//! Smoke test of the facade primitives under the simulated scheduler.
//! Run with STYLUA_VERIF_PLAN pointing at a plan file; exits 0 on success.
use stylua_verif_seams::std;

use std::sync::atomic::{AtomicUsize, Ordering};
use std::sync::{mpsc, Arc, Barrier, Condvar, Mutex, Once, OnceLock, RwLock};
use std::thread;

static INIT: Once = Once::new();
static CELL: OnceLock<usize> = OnceLock::new();
static COUNT: AtomicUsize = AtomicUsize::new(0);

fn main() {
    stylua_verif_seams::init();
    let barrier = Arc::new(Barrier::new(3));
    let (tx, rx) = mpsc::sync_channel::<usize>(1);
    let rw = Arc::new(RwLock::new(0usize));
    let pair = Arc::new((Mutex::new(false), Condvar::new()));
    let mut hs = Vec::new();
    for i in 0..3usize {
        let (b, tx, rw, pair) = (barrier.clone(), tx.clone(), rw.clone(), pair.clone());
        hs.push(thread::spawn(move || {
            INIT.call_once(|| {
                COUNT.fetch_add(1, Ordering::SeqCst);
                thread::yield_now();
            });
            let v = *CELL.get_or_init(|| {
                thread::yield_now();
                42
            });
            assert_eq!(v, 42);
            b.wait();
            *rw.write().unwrap() += 1;
            let _ = *rw.read().unwrap();
            tx.send(i).unwrap();
            if i == 0 {
                let (m, c) = &*pair;
                *m.lock().unwrap() = true;
                c.notify_all();
            }
            i * 2
        }));
    }
    drop(tx);
    // a timed wait that must time out (nobody notifies this condvar)
    let lonely = (Mutex::new(()), Condvar::new());
    let g = lonely.0.lock().unwrap();
    let (_g, to) = lonely.1.wait_timeout(g, std::time::Duration::from_secs(60)).unwrap();
    assert!(to.timed_out());
    let mut got: Vec<usize> = rx.iter().collect();
    got.sort();
    assert_eq!(got, vec![0, 1, 2]);
    {
        let (m, c) = &*pair;
        let mut ready = m.lock().unwrap();
        while !*ready {
            ready = c.wait(ready).unwrap();
        }
    }
    let sum: usize = hs.into_iter().map(|h| h.join().unwrap()).sum();
    assert_eq!(sum, 6);
    assert_eq!(COUNT.load(Ordering::SeqCst), 1);
    assert_eq!(*rw.read().unwrap(), 3);
    assert!(matches!(rx.recv_timeout(std::time::Duration::from_secs(1)), Err(mpsc::RecvTimeoutError::Disconnected)));
    // simulated clock: sleeping costs no wall-clock time and moves `Instant`
    {
        let wall = ::std::time::Instant::now();
        let t0 = std::time::Instant::now();
        thread::sleep(std::time::Duration::from_secs(3600));
        assert!(t0.elapsed() >= std::time::Duration::from_secs(3600));
        assert!(wall.elapsed() < ::std::time::Duration::from_secs(5));
        // a consumer with a 2 s timeout against a producer that stalls for 10 s
        let (tx, rx) = mpsc::channel::<u8>();
        let h = thread::spawn(move || {
            thread::sleep(std::time::Duration::from_secs(10));
            let _ = tx.send(1);
        });
        assert!(matches!(rx.recv_timeout(std::time::Duration::from_secs(2)), Err(mpsc::RecvTimeoutError::Timeout)));
        assert_eq!(rx.recv().unwrap(), 1);
        h.join().unwrap();
    }
    // scoped threads
    {
        let data = vec![1usize, 2, 3, 4];
        let total = AtomicUsize::new(0);
        let r = thread::scope(|s| {
            let h = s.spawn(|| data.iter().sum::<usize>());
            for x in &data {
                let total = &total;
                s.spawn(move || {
                    total.fetch_add(*x, Ordering::SeqCst);
                });
            }
            h.join().unwrap()
        });
        assert_eq!(r, 10);
        assert_eq!(total.load(Ordering::SeqCst), 10);
    }
    // File / OpenOptions through the facade
    {
        use std::io::{Read, Seek, SeekFrom, Write};
        let dir = std::env::temp_dir().join(format!("facade-smoke-{}", std::process::id()));
        std::fs::create_dir_all(&dir).unwrap();
        let p = dir.join("f.txt");
        let mut f = std::fs::File::create(&p).unwrap();
        f.write_all(b"hello ").unwrap();
        drop(f);
        let mut f = std::fs::OpenOptions::new().append(true).open(&p).unwrap();
        f.write_all(b"world").unwrap();
        drop(f);
        let mut s = String::new();
        std::fs::File::open(&p).unwrap().read_to_string(&mut s).unwrap();
        assert_eq!(s, "hello world");
        let mut f = std::fs::OpenOptions::new().read(true).write(true).open(&p).unwrap();
        f.seek(SeekFrom::Start(6)).unwrap();
        f.write_all(b"W").unwrap();
        f.set_len(11).unwrap();
        assert_eq!(f.metadata().unwrap().len(), 11);
        drop(f);
        assert_eq!(std::fs::read_to_string(&p).unwrap(), "hello World");
        let r = std::io::BufReader::new(std::fs::File::open(&p).unwrap());
        assert_eq!(std::io::BufRead::lines(r).count(), 1);
        std::fs::remove_dir_all(&dir).unwrap();
    }
    std::process::exit(0);
}
