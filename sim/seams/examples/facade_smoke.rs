//! Smoke test of the facade primitives under the simulated scheduler.
//! Run with STYLUA_VERIF_PLAN pointing at a plan file; exits 0 on success.
use stylua_verif_seams::std;

use std::sync::atomic::{AtomicUsize, Ordering};
use std::sync::{mpsc, Arc, Barrier, Condvar, Mutex, Once, OnceLock, RwLock};
use std::thread;

static INIT: Once = Once::new();
static CELL: OnceLock<usize> = OnceLock::new();
static COUNT: AtomicUsize = AtomicUsize::new(0);

fn main() {
    stylua_verif_seams::init();
    let barrier = Arc::new(Barrier::new(3));
    let (tx, rx) = mpsc::sync_channel::<usize>(1);
    let rw = Arc::new(RwLock::new(0usize));
    let pair = Arc::new((Mutex::new(false), Condvar::new()));
    let mut hs = Vec::new();
    for i in 0..3usize {
        let (b, tx, rw, pair) = (barrier.clone(), tx.clone(), rw.clone(), pair.clone());
        hs.push(thread::spawn(move || {
            INIT.call_once(|| {
                COUNT.fetch_add(1, Ordering::SeqCst);
                thread::yield_now();
            });
            let v = *CELL.get_or_init(|| {
                thread::yield_now();
                42
            });
            assert_eq!(v, 42);
            b.wait();
            *rw.write().unwrap() += 1;
            let _ = *rw.read().unwrap();
            tx.send(i).unwrap();
            if i == 0 {
                let (m, c) = &*pair;
                *m.lock().unwrap() = true;
                c.notify_all();
            }
            i * 2
        }));
    }
    drop(tx);
    // a timed wait that must time out (nobody notifies this condvar)
    let lonely = (Mutex::new(()), Condvar::new());
    let g = lonely.0.lock().unwrap();
    let (_g, to) = lonely.1.wait_timeout(g, std::time::Duration::from_secs(60)).unwrap();
    assert!(to.timed_out());
    let mut got: Vec<usize> = rx.iter().collect();
    got.sort();
    assert_eq!(got, vec![0, 1, 2]);
    {
        let (m, c) = &*pair;
        let mut ready = m.lock().unwrap();
        while !*ready {
            ready = c.wait(ready).unwrap();
        }
    }
    let sum: usize = hs.into_iter().map(|h| h.join().unwrap()).sum();
    assert_eq!(sum, 6);
    assert_eq!(COUNT.load(Ordering::SeqCst), 1);
    assert_eq!(*rw.read().unwrap(), 3);
    assert!(matches!(rx.recv_timeout(std::time::Duration::from_secs(1)), Err(mpsc::RecvTimeoutError::Disconnected)));
    std::process::exit(0);
}
