//! `ignore` facade: the real crate, except that `WalkBuilder::new` installs a seeded
//! per-directory order (directory order is whatever readdir returns in production — environment
//! nondeterminism the simulator owns).  Everything else derefs to the real builder.
pub use ignore_real::*;

pub struct WalkBuilder(ignore_real::WalkBuilder);

impl WalkBuilder {
    pub fn new<P: AsRef<std::path::Path>>(path: P) -> WalkBuilder {
        let mut b = ignore_real::WalkBuilder::new(path);
        let key = stylua_verif_seams::dir_key();
        b.sort_by_file_name(move |a, b| {
            if key == 0 {
                a.cmp(b)
            } else {
                use std::os::unix::ffi::OsStrExt;
                let (ha, hb) = (simplan::fnv(a.as_bytes(), key), simplan::fnv(b.as_bytes(), key));
                ha.cmp(&hb).then_with(|| a.cmp(b))
            }
        });
        WalkBuilder(b)
    }
}
impl std::ops::Deref for WalkBuilder {
    type Target = ignore_real::WalkBuilder;
    fn deref(&self) -> &Self::Target {
        &self.0
    }
}
impl std::ops::DerefMut for WalkBuilder {
    fn deref_mut(&mut self) -> &mut Self::Target {
        &mut self.0
    }
}
