// Copyright 2014 The Rust Project Developers. See the COPYRIGHT
// file at the top-level directory of this distribution and at
// http://rust-lang.org/COPYRIGHT.
//
// Licensed under the Apache License, Version 2.0 <LICENSE-APACHE or
// http://www.apache.org/licenses/LICENSE-2.0> or the MIT license
// <LICENSE-MIT or http://opensource.org/licenses/MIT>, at your
// option. This file may not be copied, modified, or distributed
// except according to those terms.

//! A thread pool used to execute functions in parallel.
//!
//! Spawns a specified number of worker threads and replenishes the pool if any worker threads
//! panic.
//!
//! # Examples
//!
//! ## Synchronized with a channel
//!
//! Every thread sends one message over the channel, which then is collected with the `take()`.
//!
//! ```
//! use threadpool::ThreadPool;
//! use std::sync::mpsc::channel;
//!
//! let n_workers = 4;
//! let n_jobs = 8;
//! let pool = ThreadPool::new(n_workers);
//!
//! let (tx, rx) = channel();
//! for _ in 0..n_jobs {
//!     let tx = tx.clone();
//!     pool.execute(move|| {
//!         tx.send(1).expect("channel will be there waiting for the pool");
//!     });
//! }
//!
//! assert_eq!(rx.iter().take(n_jobs).fold(0, |a, b| a + b), 8);
//! ```
//!
//! ## Synchronized with a barrier
//!
//! Keep in mind, if a barrier synchronizes more jobs than you have workers in the pool,
//! you will end up with a [deadlock](https://en.wikipedia.org/wiki/Deadlock)
//! at the barrier which is [not considered unsafe](
//! https://doc.rust-lang.org/reference/behavior-not-considered-unsafe.html).
//!
//! ```
//! use threadpool::ThreadPool;
//! use std::sync::{Arc, Barrier};
//! use std::sync::atomic::{AtomicUsize, Ordering};
//!
//! // create at least as many workers as jobs or you will deadlock yourself
//! let n_workers = 42;
//! let n_jobs = 23;
//! let pool = ThreadPool::new(n_workers);
//! let an_atomic = Arc::new(AtomicUsize::new(0));
//!
//! assert!(n_jobs <= n_workers, "too many jobs, will deadlock");
//!
//! // create a barrier that waits for all jobs plus the starter thread
//! let barrier = Arc::new(Barrier::new(n_jobs + 1));
//! for _ in 0..n_jobs {
//!     let barrier = barrier.clone();
//!     let an_atomic = an_atomic.clone();
//!
//!     pool.execute(move|| {
//!         // do the heavy work
//!         an_atomic.fetch_add(1, Ordering::Relaxed);
//!
//!         // then wait for the other threads
//!         barrier.wait();
//!     });
//! }
//!
//! // wait for the threads to finish the work
//! barrier.wait();
//! assert_eq!(an_atomic.load(Ordering::SeqCst), /* n_jobs = */ 23);
//! ```

extern crate num_cpus;

use stylua_verif_seams::std; // VERIF: the only modification: route std::{sync,thread} through the simulator

use std::fmt;
use std::sync::atomic::{AtomicUsize, Ordering};
use std::sync::mpsc::{channel, Receiver, Sender};
use std::sync::{Arc, Condvar, Mutex};
use std::thread;

trait FnBox {
    fn call_box(self: Box<Self>);
}

impl<F: FnOnce()> FnBox for F {
    fn call_box(self: Box<F>) {
        (*self)()
    }
}

type Thunk<'a> = Box<FnBox + Send + 'a>;

struct Sentinel<'a> {
    shared_data: &'a Arc<ThreadPoolSharedData>,
    active: bool,
}

impl<'a> Sentinel<'a> {
    fn new(shared_data: &'a Arc<ThreadPoolSharedData>) -> Sentinel<'a> {
        Sentinel {
            shared_data: shared_data,
            active: true,
        }
    }

    /// Cancel and destroy this sentinel.
    fn cancel(mut self) {
        self.active = false;
    }
}

impl<'a> Drop for Sentinel<'a> {
    fn drop(&mut self) {
        if self.active {
            self.shared_data.active_count.fetch_sub(1, Ordering::SeqCst);
            if thread::panicking() {
                self.shared_data.panic_count.fetch_add(1, Ordering::SeqCst);
            }
            self.shared_data.no_work_notify_all();
            spawn_in_pool(self.shared_data.clone())
        }
    }
}

/// [`ThreadPool`] factory, which can be used in order to configure the properties of the
/// [`ThreadPool`].
///
/// The three configuration options available:
///
/// * `num_threads`: maximum number of threads that will be alive at any given moment by the built
///   [`ThreadPool`]
/// * `thread_name`: thread name for each of the threads spawned by the built [`ThreadPool`]
/// * `thread_stack_size`: stack size (in bytes) for each of the threads spawned by the built
///   [`ThreadPool`]
///
/// [`ThreadPool`]: struct.ThreadPool.html
///
/// # Examples
///
/// Build a [`ThreadPool`] that uses a maximum of eight threads simultaneously and each thread has
/// a 8 MB stack size:
///
/// ```
/// let pool = threadpool::Builder::new()
///     .num_threads(8)
///     .thread_stack_size(8_000_000)
///     .build();
/// ```
#[derive(Clone, Default)]
pub struct Builder {
    num_threads: Option<usize>,
    thread_name: Option<String>,
    thread_stack_size: Option<usize>,
}

impl Builder {
    /// Initiate a new [`Builder`].
    ///
    /// [`Builder`]: struct.Builder.html
    ///
    /// # Examples
    ///
    /// ```
    /// let builder = threadpool::Builder::new();
    /// ```
    pub fn new() -> Builder {
        Builder {
            num_threads: None,
            thread_name: None,
            thread_stack_size: None,
        }
    }

    /// Set the maximum number of worker-threads that will be alive at any given moment by the built
    /// [`ThreadPool`]. If not specified, defaults the number of threads to the number of CPUs.
    ///
    /// [`ThreadPool`]: struct.ThreadPool.html
    ///
    /// # Panics
    ///
    /// This method will panic if `num_threads` is 0.
    ///
    /// # Examples
    ///
    /// No more than eight threads will be alive simultaneously for this pool:
    ///
    /// ```
    /// use std::thread;
    ///
    /// let pool = threadpool::Builder::new()
    ///     .num_threads(8)
    ///     .build();
    ///
    /// for _ in 0..100 {
    ///     pool.execute(|| {
    ///         println!("Hello from a worker thread!")
    ///     })
    /// }
    /// ```
    pub fn num_threads(mut self, num_threads: usize) -> Builder {
        assert!(num_threads > 0);
        self.num_threads = Some(num_threads);
        self
    }

    /// Set the thread name for each of the threads spawned by the built [`ThreadPool`]. If not
    /// specified, threads spawned by the thread pool will be unnamed.
    ///
    /// [`ThreadPool`]: struct.ThreadPool.html
    ///
    /// # Examples
    ///
    /// Each thread spawned by this pool will have the name "foo":
    ///
    /// ```
    /// use std::thread;
    ///
    /// let pool = threadpool::Builder::new()
    ///     .thread_name("foo".into())
    ///     .build();
    ///
    /// for _ in 0..100 {
    ///     pool.execute(|| {
    ///         assert_eq!(thread::current().name(), Some("foo"));
    ///     })
    /// }
    /// ```
    pub fn thread_name(mut self, name: String) -> Builder {
        self.thread_name = Some(name);
        self
    }

    /// Set the stack size (in bytes) for each of the threads spawned by the built [`ThreadPool`].
    /// If not specified, threads spawned by the threadpool will have a stack size [as specified in
    /// the `std::thread` documentation][thread].
    ///
    /// [thread]: https://doc.rust-lang.org/nightly/std/thread/index.html#stack-size
    /// [`ThreadPool`]: struct.ThreadPool.html
    ///
    /// # Examples
    ///
    /// Each thread spawned by this pool will have a 4 MB stack:
    ///
    /// ```
    /// let pool = threadpool::Builder::new()
    ///     .thread_stack_size(4_000_000)
    ///     .build();
    ///
    /// for _ in 0..100 {
    ///     pool.execute(|| {
    ///         println!("This thread has a 4 MB stack size!");
    ///     })
    /// }
    /// ```
    pub fn thread_stack_size(mut self, size: usize) -> Builder {
        self.thread_stack_size = Some(size);
        self
    }

    /// Finalize the [`Builder`] and build the [`ThreadPool`].
    ///
    /// [`Builder`]: struct.Builder.html
    /// [`ThreadPool`]: struct.ThreadPool.html
    ///
    /// # Examples
    ///
    /// ```
    /// let pool = threadpool::Builder::new()
    ///     .num_threads(8)
    ///     .thread_stack_size(4_000_000)
    ///     .build();
    /// ```
    pub fn build(self) -> ThreadPool {
        let (tx, rx) = channel::<Thunk<'static>>();

        let num_threads = self.num_threads.unwrap_or_else(num_cpus::get);

        let shared_data = Arc::new(ThreadPoolSharedData {
            name: self.thread_name,
            job_receiver: Mutex::new(rx),
            empty_condvar: Condvar::new(),
            empty_trigger: Mutex::new(()),
            join_generation: AtomicUsize::new(0),
            queued_count: AtomicUsize::new(0),
            active_count: AtomicUsize::new(0),
            max_thread_count: AtomicUsize::new(num_threads),
            panic_count: AtomicUsize::new(0),
            stack_size: self.thread_stack_size,
        });

        // Threadpool threads
        for _ in 0..num_threads {
            spawn_in_pool(shared_data.clone());
        }

        ThreadPool {
            jobs: tx,
            shared_data: shared_data,
        }
    }
}

struct ThreadPoolSharedData {
    name: Option<String>,
    job_receiver: Mutex<Receiver<Thunk<'static>>>,
    empty_trigger: Mutex<()>,
    empty_condvar: Condvar,
    join_generation: AtomicUsize,
    queued_count: AtomicUsize,
    active_count: AtomicUsize,
    max_thread_count: AtomicUsize,
    panic_count: AtomicUsize,
    stack_size: Option<usize>,
}

impl ThreadPoolSharedData {
    fn has_work(&self) -> bool {
        self.queued_count.load(Ordering::SeqCst) > 0 || self.active_count.load(Ordering::SeqCst) > 0
    }

    /// Notify all observers joining this pool if there is no more work to do.
    fn no_work_notify_all(&self) {
        if !self.has_work() {
            *self
                .empty_trigger
                .lock()
                .expect("Unable to notify all joining threads");
            self.empty_condvar.notify_all();
        }
    }
}

/// Abstraction of a thread pool for basic parallelism.
pub struct ThreadPool {
    // How the threadpool communicates with subthreads.
    //
    // This is the only such Sender, so when it is dropped all subthreads will
    // quit.
    jobs: Sender<Thunk<'static>>,
    shared_data: Arc<ThreadPoolSharedData>,
}

impl ThreadPool {
    /// Creates a new thread pool capable of executing `num_threads` number of jobs concurrently.
    ///
    /// # Panics
    ///
    /// This function will panic if `num_threads` is 0.
    ///
    /// # Examples
    ///
    /// Create a new thread pool capable of executing four jobs concurrently:
    ///
    /// ```
    /// use threadpool::ThreadPool;
    ///
    /// let pool = ThreadPool::new(4);
    /// ```
    pub fn new(num_threads: usize) -> ThreadPool {
        Builder::new().num_threads(num_threads).build()
    }

    /// Creates a new thread pool capable of executing `num_threads` number of jobs concurrently.
    /// Each thread will have the [name][thread name] `name`.
    ///
    /// # Panics
    ///
    /// This function will panic if `num_threads` is 0.
    ///
    /// # Examples
    ///
    /// ```rust
    /// use std::thread;
    /// use threadpool::ThreadPool;
    ///
    /// let pool = ThreadPool::with_name("worker".into(), 2);
    /// for _ in 0..2 {
    ///     pool.execute(|| {
    ///         assert_eq!(
    ///             thread::current().name(),
    ///             Some("worker")
    ///         );
    ///     });
    /// }
    /// pool.join();
    /// ```
    ///
    /// [thread name]: https://doc.rust-lang.org/std/thread/struct.Thread.html#method.name
    pub fn with_name(name: String, num_threads: usize) -> ThreadPool {
        Builder::new()
            .num_threads(num_threads)
            .thread_name(name)
            .build()
    }

    /// **Deprecated: Use [`ThreadPool::with_name`](#method.with_name)**
    #[inline(always)]
    #[deprecated(since = "1.4.0", note = "use ThreadPool::with_name")]
    pub fn new_with_name(name: String, num_threads: usize) -> ThreadPool {
        Self::with_name(name, num_threads)
    }

    /// Executes the function `job` on a thread in the pool.
    ///
    /// # Examples
    ///
    /// Execute four jobs on a thread pool that can run two jobs concurrently:
    ///
    /// ```
    /// use threadpool::ThreadPool;
    ///
    /// let pool = ThreadPool::new(2);
    /// pool.execute(|| println!("hello"));
    /// pool.execute(|| println!("world"));
    /// pool.execute(|| println!("foo"));
    /// pool.execute(|| println!("bar"));
    /// pool.join();
    /// ```
    pub fn execute<F>(&self, job: F)
    where
        F: FnOnce() + Send + 'static,
    {
        self.shared_data.queued_count.fetch_add(1, Ordering::SeqCst);
        self.jobs
            .send(Box::new(job))
            .expect("ThreadPool::execute unable to send job into queue.");
    }

    /// Returns the number of jobs waiting to executed in the pool.
    ///
    /// # Examples
    ///
    /// ```
    /// use threadpool::ThreadPool;
    /// use std::time::Duration;
    /// use std::thread::sleep;
    ///
    /// let pool = ThreadPool::new(2);
    /// for _ in 0..10 {
    ///     pool.execute(|| {
    ///         sleep(Duration::from_secs(100));
    ///     });
    /// }
    ///
    /// sleep(Duration::from_secs(1)); // wait for threads to start
    /// assert_eq!(8, pool.queued_count());
    /// ```
    pub fn queued_count(&self) -> usize {
        self.shared_data.queued_count.load(Ordering::Relaxed)
    }

    /// Returns the number of currently active threads.
    ///
    /// # Examples
    ///
    /// ```
    /// use threadpool::ThreadPool;
    /// use std::time::Duration;
    /// use std::thread::sleep;
    ///
    /// let pool = ThreadPool::new(4);
    /// for _ in 0..10 {
    ///     pool.execute(move || {
    ///         sleep(Duration::from_secs(100));
    ///     });
    /// }
    ///
    /// sleep(Duration::from_secs(1)); // wait for threads to start
    /// assert_eq!(4, pool.active_count());
    /// ```
    pub fn active_count(&self) -> usize {
        self.shared_data.active_count.load(Ordering::SeqCst)
    }

    /// Returns the maximum number of threads the pool will execute concurrently.
    ///
    /// # Examples
    ///
    /// ```
    /// use threadpool::ThreadPool;
    ///
    /// let mut pool = ThreadPool::new(4);
    /// assert_eq!(4, pool.max_count());
    ///
    /// pool.set_num_threads(8);
    /// assert_eq!(8, pool.max_count());
    /// ```
    pub fn max_count(&self) -> usize {
        self.shared_data.max_thread_count.load(Ordering::Relaxed)
    }

    /// Returns the number of panicked threads over the lifetime of the pool.
    ///
    /// # Examples
    ///
    /// ```
    /// use threadpool::ThreadPool;
    ///
    /// let pool = ThreadPool::new(4);
    /// for n in 0..10 {
    ///     pool.execute(move || {
    ///         // simulate a panic
    ///         if n % 2 == 0 {
    ///             panic!()
    ///         }
    ///     });
    /// }
    /// pool.join();
    ///
    /// assert_eq!(5, pool.panic_count());
    /// ```
    pub fn panic_count(&self) -> usize {
        self.shared_data.panic_count.load(Ordering::Relaxed)
    }

    /// **Deprecated: Use [`ThreadPool::set_num_threads`](#method.set_num_threads)**
    #[deprecated(since = "1.3.0", note = "use ThreadPool::set_num_threads")]
    pub fn set_threads(&mut self, num_threads: usize) {
        self.set_num_threads(num_threads)
    }

    /// Sets the number of worker-threads to use as `num_threads`.
    /// Can be used to change the threadpool size during runtime.
    /// Will not abort already running or waiting threads.
    ///
    /// # Panics
    ///
    /// This function will panic if `num_threads` is 0.
    ///
    /// # Examples
    ///
    /// ```
    /// use threadpool::ThreadPool;
    /// use std::time::Duration;
    /// use std::thread::sleep;
    ///
    /// let mut pool = ThreadPool::new(4);
    /// for _ in 0..10 {
    ///     pool.execute(move || {
    ///         sleep(Duration::from_secs(100));
    ///     });
    /// }
    ///
    /// sleep(Duration::from_secs(1)); // wait for threads to start
    /// assert_eq!(4, pool.active_count());
    /// assert_eq!(6, pool.queued_count());
    ///
    /// // Increase thread capacity of the pool
    /// pool.set_num_threads(8);
    ///
    /// sleep(Duration::from_secs(1)); // wait for new threads to start
    /// assert_eq!(8, pool.active_count());
    /// assert_eq!(2, pool.queued_count());
    ///
    /// // Decrease thread capacity of the pool
    /// // No active threads are killed
    /// pool.set_num_threads(4);
    ///
    /// assert_eq!(8, pool.active_count());
    /// assert_eq!(2, pool.queued_count());
    /// ```
    pub fn set_num_threads(&mut self, num_threads: usize) {
        assert!(num_threads >= 1);
        let prev_num_threads = self
            .shared_data
            .max_thread_count
            .swap(num_threads, Ordering::Release);
        if let Some(num_spawn) = num_threads.checked_sub(prev_num_threads) {
            // Spawn new threads
            for _ in 0..num_spawn {
                spawn_in_pool(self.shared_data.clone());
            }
        }
    }

    /// Block the current thread until all jobs in the pool have been executed.
    ///
    /// Calling `join` on an empty pool will cause an immediate return.
    /// `join` may be called from multiple threads concurrently.
    /// A `join` is an atomic point in time. All threads joining before the join
    /// event will exit together even if the pool is processing new jobs by the
    /// time they get scheduled.
    ///
    /// Calling `join` from a thread within the pool will cause a deadlock. This
    /// behavior is considered safe.
    ///
    /// # Examples
    ///
    /// ```
    /// use threadpool::ThreadPool;
    /// use std::sync::Arc;
    /// use std::sync::atomic::{AtomicUsize, Ordering};
    ///
    /// let pool = ThreadPool::new(8);
    /// let test_count = Arc::new(AtomicUsize::new(0));
    ///
    /// for _ in 0..42 {
    ///     let test_count = test_count.clone();
    ///     pool.execute(move || {
    ///         test_count.fetch_add(1, Ordering::Relaxed);
    ///     });
    /// }
    ///
    /// pool.join();
    /// assert_eq!(42, test_count.load(Ordering::Relaxed));
    /// ```
    pub fn join(&self) {
        // fast path requires no mutex
        if self.shared_data.has_work() == false {
            return ();
        }

        let generation = self.shared_data.join_generation.load(Ordering::SeqCst);
        let mut lock = self.shared_data.empty_trigger.lock().unwrap();

        while generation == self.shared_data.join_generation.load(Ordering::Relaxed)
            && self.shared_data.has_work()
        {
            lock = self.shared_data.empty_condvar.wait(lock).unwrap();
        }

        // increase generation if we are the first thread to come out of the loop
        self.shared_data.join_generation.compare_and_swap(
            generation,
            generation.wrapping_add(1),
            Ordering::SeqCst,
        );
    }
}

impl Clone for ThreadPool {
    /// Cloning a pool will create a new handle to the pool.
    /// The behavior is similar to [Arc](https://doc.rust-lang.org/stable/std/sync/struct.Arc.html).
    ///
    /// We could for example submit jobs from multiple threads concurrently.
    ///
    /// ```
    /// use threadpool::ThreadPool;
    /// use std::thread;
    /// use std::sync::mpsc::channel;
    ///
    /// let pool = ThreadPool::with_name("clone example".into(), 2);
    ///
    /// let results = (0..2)
    ///     .map(|i| {
    ///         let pool = pool.clone();
    ///         thread::spawn(move || {
    ///             let (tx, rx) = channel();
    ///             for i in 1..12 {
    ///                 let tx = tx.clone();
    ///                 pool.execute(move || {
    ///                     tx.send(i).expect("channel will be waiting");
    ///                 });
    ///             }
    ///             drop(tx);
    ///             if i == 0 {
    ///                 rx.iter().fold(0, |accumulator, element| accumulator + element)
    ///             } else {
    ///                 rx.iter().fold(1, |accumulator, element| accumulator * element)
    ///             }
    ///         })
    ///     })
    ///     .map(|join_handle| join_handle.join().expect("collect results from threads"))
    ///     .collect::<Vec<usize>>();
    ///
    /// assert_eq!(vec![66, 39916800], results);
    /// ```
    fn clone(&self) -> ThreadPool {
        ThreadPool {
            jobs: self.jobs.clone(),
            shared_data: self.shared_data.clone(),
        }
    }
}

/// Create a thread pool with one thread per CPU.
/// On machines with hyperthreading,
/// this will create one thread per hyperthread.
impl Default for ThreadPool {
    fn default() -> Self {
        ThreadPool::new(num_cpus::get())
    }
}

impl fmt::Debug for ThreadPool {
    fn fmt(&self, f: &mut fmt::Formatter) -> fmt::Result {
        f.debug_struct("ThreadPool")
            .field("name", &self.shared_data.name)
            .field("queued_count", &self.queued_count())
            .field("active_count", &self.active_count())
            .field("max_count", &self.max_count())
            .finish()
    }
}

impl PartialEq for ThreadPool {
    /// Check if you are working with the same pool
    ///
    /// ```
    /// use threadpool::ThreadPool;
    ///
    /// let a = ThreadPool::new(2);
    /// let b = ThreadPool::new(2);
    ///
    /// assert_eq!(a, a);
    /// assert_eq!(b, b);
    ///
    /// # // TODO: change this to assert_ne in the future
    /// assert!(a != b);
    /// assert!(b != a);
    /// ```
    fn eq(&self, other: &ThreadPool) -> bool {
        let a: &ThreadPoolSharedData = &*self.shared_data;
        let b: &ThreadPoolSharedData = &*other.shared_data;
        a as *const ThreadPoolSharedData == b as *const ThreadPoolSharedData
        // with rust 1.17 and late:
        // Arc::ptr_eq(&self.shared_data, &other.shared_data)
    }
}
impl Eq for ThreadPool {}

fn spawn_in_pool(shared_data: Arc<ThreadPoolSharedData>) {
    let mut builder = thread::Builder::new();
    if let Some(ref name) = shared_data.name {
        builder = builder.name(name.clone());
    }
    if let Some(ref stack_size) = shared_data.stack_size {
        builder = builder.stack_size(stack_size.to_owned());
    }
    builder
        .spawn(move || {
            // Will spawn a new thread on panic unless it is cancelled.
            let sentinel = Sentinel::new(&shared_data);

            loop {
                // Shutdown this thread if the pool has become smaller
                let thread_counter_val = shared_data.active_count.load(Ordering::Acquire);
                let max_thread_count_val = shared_data.max_thread_count.load(Ordering::Relaxed);
                if thread_counter_val >= max_thread_count_val {
                    break;
                }
                let message = {
                    // Only lock jobs for the time it takes
                    // to get a job, not run it.
                    let lock = shared_data
                        .job_receiver
                        .lock()
                        .expect("Worker thread unable to lock job_receiver");
                    lock.recv()
                };

                let job = match message {
                    Ok(job) => job,
                    // The ThreadPool was dropped.
                    Err(..) => break,
                };
                // Do not allow IR around the job execution
                shared_data.active_count.fetch_add(1, Ordering::SeqCst);
                shared_data.queued_count.fetch_sub(1, Ordering::SeqCst);

                job.call_box();

                shared_data.active_count.fetch_sub(1, Ordering::SeqCst);
                shared_data.no_work_notify_all();
            }

            sentinel.cancel();
        })
        .unwrap();
}

#[cfg(test)]
mod test {
    use super::{Builder, ThreadPool};
    use std::sync::atomic::{AtomicUsize, Ordering};
    use std::sync::mpsc::{channel, sync_channel};
    use std::sync::{Arc, Barrier};
    use std::thread::{self, sleep};
    use std::time::Duration;

    const TEST_TASKS: usize = 4;

    #[test]
    fn test_set_num_threads_increasing() {
        let new_thread_amount = TEST_TASKS + 8;
        let mut pool = ThreadPool::new(TEST_TASKS);
        for _ in 0..TEST_TASKS {
            pool.execute(move || sleep(Duration::from_secs(23)));
        }
        sleep(Duration::from_secs(1));
        assert_eq!(pool.active_count(), TEST_TASKS);

        pool.set_num_threads(new_thread_amount);

        for _ in 0..(new_thread_amount - TEST_TASKS) {
            pool.execute(move || sleep(Duration::from_secs(23)));
        }
        sleep(Duration::from_secs(1));
        assert_eq!(pool.active_count(), new_thread_amount);

        pool.join();
    }

    #[test]
    fn test_set_num_threads_decreasing() {
        let new_thread_amount = 2;
        let mut pool = ThreadPool::new(TEST_TASKS);
        for _ in 0..TEST_TASKS {
            pool.execute(move || {
                assert_eq!(1, 1);
            });
        }
        pool.set_num_threads(new_thread_amount);
        for _ in 0..new_thread_amount {
            pool.execute(move || sleep(Duration::from_secs(23)));
        }
        sleep(Duration::from_secs(1));
        assert_eq!(pool.active_count(), new_thread_amount);

        pool.join();
    }

    #[test]
    fn test_active_count() {
        let pool = ThreadPool::new(TEST_TASKS);
        for _ in 0..2 * TEST_TASKS {
            pool.execute(move || loop {
                sleep(Duration::from_secs(10))
            });
        }
        sleep(Duration::from_secs(1));
        let active_count = pool.active_count();
        assert_eq!(active_count, TEST_TASKS);
        let initialized_count = pool.max_count();
        assert_eq!(initialized_count, TEST_TASKS);
    }

    #[test]
    fn test_works() {
        let pool = ThreadPool::new(TEST_TASKS);

        let (tx, rx) = channel();
        for _ in 0..TEST_TASKS {
            let tx = tx.clone();
            pool.execute(move || {
                tx.send(1).unwrap();
            });
        }

        assert_eq!(rx.iter().take(TEST_TASKS).fold(0, |a, b| a + b), TEST_TASKS);
    }

    #[test]
    #[should_panic]
    fn test_zero_tasks_panic() {
        ThreadPool::new(0);
    }

    #[test]
    fn test_recovery_from_subtask_panic() {
        let pool = ThreadPool::new(TEST_TASKS);

        // Panic all the existing threads.
        for _ in 0..TEST_TASKS {
            pool.execute(move || panic!("Ignore this panic, it must!"));
        }
        pool.join();

        assert_eq!(pool.panic_count(), TEST_TASKS);

        // Ensure new threads were spawned to compensate.
        let (tx, rx) = channel();
        for _ in 0..TEST_TASKS {
            let tx = tx.clone();
            pool.execute(move || {
                tx.send(1).unwrap();
            });
        }

        assert_eq!(rx.iter().take(TEST_TASKS).fold(0, |a, b| a + b), TEST_TASKS);
    }

    #[test]
    fn test_should_not_panic_on_drop_if_subtasks_panic_after_drop() {
        let pool = ThreadPool::new(TEST_TASKS);
        let waiter = Arc::new(Barrier::new(TEST_TASKS + 1));

        // Panic all the existing threads in a bit.
        for _ in 0..TEST_TASKS {
            let waiter = waiter.clone();
            pool.execute(move || {
                waiter.wait();
                panic!("Ignore this panic, it should!");
            });
        }

        drop(pool);

        // Kick off the failure.
        waiter.wait();
    }

    #[test]
    fn test_massive_task_creation() {
        let test_tasks = 4_200_000;

        let pool = ThreadPool::new(TEST_TASKS);
        let b0 = Arc::new(Barrier::new(TEST_TASKS + 1));
        let b1 = Arc::new(Barrier::new(TEST_TASKS + 1));

        let (tx, rx) = channel();

        for i in 0..test_tasks {
            let tx = tx.clone();
            let (b0, b1) = (b0.clone(), b1.clone());

            pool.execute(move || {
                // Wait until the pool has been filled once.
                if i < TEST_TASKS {
                    b0.wait();
                    // wait so the pool can be measured
                    b1.wait();
                }

                tx.send(1).is_ok();
            });
        }

        b0.wait();
        assert_eq!(pool.active_count(), TEST_TASKS);
        b1.wait();

        assert_eq!(rx.iter().take(test_tasks).fold(0, |a, b| a + b), test_tasks);
        pool.join();

        let atomic_active_count = pool.active_count();
        assert!(
            atomic_active_count == 0,
            "atomic_active_count: {}",
            atomic_active_count
        );
    }

    #[test]
    fn test_shrink() {
        let test_tasks_begin = TEST_TASKS + 2;

        let mut pool = ThreadPool::new(test_tasks_begin);
        let b0 = Arc::new(Barrier::new(test_tasks_begin + 1));
        let b1 = Arc::new(Barrier::new(test_tasks_begin + 1));

        for _ in 0..test_tasks_begin {
            let (b0, b1) = (b0.clone(), b1.clone());
            pool.execute(move || {
                b0.wait();
                b1.wait();
            });
        }

        let b2 = Arc::new(Barrier::new(TEST_TASKS + 1));
        let b3 = Arc::new(Barrier::new(TEST_TASKS + 1));

        for _ in 0..TEST_TASKS {
            let (b2, b3) = (b2.clone(), b3.clone());
            pool.execute(move || {
                b2.wait();
                b3.wait();
            });
        }

        b0.wait();
        pool.set_num_threads(TEST_TASKS);

        assert_eq!(pool.active_count(), test_tasks_begin);
        b1.wait();

        b2.wait();
        assert_eq!(pool.active_count(), TEST_TASKS);
        b3.wait();
    }

    #[test]
    fn test_name() {
        let name = "test";
        let mut pool = ThreadPool::with_name(name.to_owned(), 2);
        let (tx, rx) = sync_channel(0);

        // initial thread should share the name "test"
        for _ in 0..2 {
            let tx = tx.clone();
            pool.execute(move || {
                let name = thread::current().name().unwrap().to_owned();
                tx.send(name).unwrap();
            });
        }

        // new spawn thread should share the name "test" too.
        pool.set_num_threads(3);
        let tx_clone = tx.clone();
        pool.execute(move || {
            let name = thread::current().name().unwrap().to_owned();
            tx_clone.send(name).unwrap();
            panic!();
        });

        // recover thread should share the name "test" too.
        pool.execute(move || {
            let name = thread::current().name().unwrap().to_owned();
            tx.send(name).unwrap();
        });

        for thread_name in rx.iter().take(4) {
            assert_eq!(name, thread_name);
        }
    }

    #[test]
    fn test_debug() {
        let pool = ThreadPool::new(4);
        let debug = format!("{:?}", pool);
        assert_eq!(
            debug,
            "ThreadPool { name: None, queued_count: 0, active_count: 0, max_count: 4 }"
        );

        let pool = ThreadPool::with_name("hello".into(), 4);
        let debug = format!("{:?}", pool);
        assert_eq!(
            debug,
            "ThreadPool { name: Some(\"hello\"), queued_count: 0, active_count: 0, max_count: 4 }"
        );

        let pool = ThreadPool::new(4);
        pool.execute(move || sleep(Duration::from_secs(5)));
        sleep(Duration::from_secs(1));
        let debug = format!("{:?}", pool);
        assert_eq!(
            debug,
            "ThreadPool { name: None, queued_count: 0, active_count: 1, max_count: 4 }"
        );
    }

    #[test]
    fn test_repeate_join() {
        let pool = ThreadPool::with_name("repeate join test".into(), 8);
        let test_count = Arc::new(AtomicUsize::new(0));

        for _ in 0..42 {
            let test_count = test_count.clone();
            pool.execute(move || {
                sleep(Duration::from_secs(2));
                test_count.fetch_add(1, Ordering::Release);
            });
        }

        println!("{:?}", pool);
        pool.join();
        assert_eq!(42, test_count.load(Ordering::Acquire));

        for _ in 0..42 {
            let test_count = test_count.clone();
            pool.execute(move || {
                sleep(Duration::from_secs(2));
                test_count.fetch_add(1, Ordering::Relaxed);
            });
        }
        pool.join();
        assert_eq!(84, test_count.load(Ordering::Relaxed));
    }

    #[test]
    fn test_multi_join() {
        use std::sync::mpsc::TryRecvError::*;

        // Toggle the following lines to debug the deadlock
        fn error(_s: String) {
            //use ::std::io::Write;
            //let stderr = ::std::io::stderr();
            //let mut stderr = stderr.lock();
            //stderr.write(&_s.as_bytes()).is_ok();
        }

        let pool0 = ThreadPool::with_name("multi join pool0".into(), 4);
        let pool1 = ThreadPool::with_name("multi join pool1".into(), 4);
        let (tx, rx) = channel();

        for i in 0..8 {
            let pool1 = pool1.clone();
            let pool0_ = pool0.clone();
            let tx = tx.clone();
            pool0.execute(move || {
                pool1.execute(move || {
                    error(format!("p1: {} -=- {:?}\n", i, pool0_));
                    pool0_.join();
                    error(format!("p1: send({})\n", i));
                    tx.send(i).expect("send i from pool1 -> main");
                });
                error(format!("p0: {}\n", i));
            });
        }
        drop(tx);

        assert_eq!(rx.try_recv(), Err(Empty));
        error(format!("{:?}\n{:?}\n", pool0, pool1));
        pool0.join();
        error(format!("pool0.join() complete =-= {:?}", pool1));
        pool1.join();
        error("pool1.join() complete\n".into());
        assert_eq!(
            rx.iter().fold(0, |acc, i| acc + i),
            0 + 1 + 2 + 3 + 4 + 5 + 6 + 7
        );
    }

    #[test]
    fn test_empty_pool() {
        // Joining an empty pool must return imminently
        let pool = ThreadPool::new(4);

        pool.join();

        assert!(true);
    }

    #[test]
    fn test_no_fun_or_joy() {
        // What happens when you keep adding jobs after a join

        fn sleepy_function() {
            sleep(Duration::from_secs(6));
        }

        let pool = ThreadPool::with_name("no fun or joy".into(), 8);

        pool.execute(sleepy_function);

        let p_t = pool.clone();
        thread::spawn(move || {
            (0..23).map(|_| p_t.execute(sleepy_function)).count();
        });

        pool.join();
    }

    #[test]
    fn test_clone() {
        let pool = ThreadPool::with_name("clone example".into(), 2);

        // This batch of jobs will occupy the pool for some time
        for _ in 0..6 {
            pool.execute(move || {
                sleep(Duration::from_secs(2));
            });
        }

        // The following jobs will be inserted into the pool in a random fashion
        let t0 = {
            let pool = pool.clone();
            thread::spawn(move || {
                // wait for the first batch of tasks to finish
                pool.join();

                let (tx, rx) = channel();
                for i in 0..42 {
                    let tx = tx.clone();
                    pool.execute(move || {
                        tx.send(i).expect("channel will be waiting");
                    });
                }
                drop(tx);
                rx.iter()
                    .fold(0, |accumulator, element| accumulator + element)
            })
        };
        let t1 = {
            let pool = pool.clone();
            thread::spawn(move || {
                // wait for the first batch of tasks to finish
                pool.join();

                let (tx, rx) = channel();
                for i in 1..12 {
                    let tx = tx.clone();
                    pool.execute(move || {
                        tx.send(i).expect("channel will be waiting");
                    });
                }
                drop(tx);
                rx.iter()
                    .fold(1, |accumulator, element| accumulator * element)
            })
        };

        assert_eq!(
            861,
            t0.join()
                .expect("thread 0 will return after calculating additions",)
        );
        assert_eq!(
            39916800,
            t1.join()
                .expect("thread 1 will return after calculating multiplications",)
        );
    }

    #[test]
    fn test_sync_shared_data() {
        fn assert_sync<T: Sync>() {}
        assert_sync::<super::ThreadPoolSharedData>();
    }

    #[test]
    fn test_send_shared_data() {
        fn assert_send<T: Send>() {}
        assert_send::<super::ThreadPoolSharedData>();
    }

    #[test]
    fn test_send() {
        fn assert_send<T: Send>() {}
        assert_send::<ThreadPool>();
    }

    #[test]
    fn test_cloned_eq() {
        let a = ThreadPool::new(2);

        assert_eq!(a, a.clone());
    }

    #[test]
    /// The scenario is joining threads should not be stuck once their wave
    /// of joins has completed. So once one thread joining on a pool has
    /// succeded other threads joining on the same pool must get out even if
    /// the thread is used for other jobs while the first group is finishing
    /// their join
    ///
    /// In this example this means the waiting threads will exit the join in
    /// groups of four because the waiter pool has four workers.
    fn test_join_wavesurfer() {
        let n_cycles = 4;
        let n_workers = 4;
        let (tx, rx) = channel();
        let builder = Builder::new()
            .num_threads(n_workers)
            .thread_name("join wavesurfer".into());
        let p_waiter = builder.clone().build();
        let p_clock = builder.build();

        let barrier = Arc::new(Barrier::new(3));
        let wave_clock = Arc::new(AtomicUsize::new(0));
        let clock_thread = {
            let barrier = barrier.clone();
            let wave_clock = wave_clock.clone();
            thread::spawn(move || {
                barrier.wait();
                for wave_num in 0..n_cycles {
                    wave_clock.store(wave_num, Ordering::SeqCst);
                    sleep(Duration::from_secs(1));
                }
            })
        };

        {
            let barrier = barrier.clone();
            p_clock.execute(move || {
                barrier.wait();
                // this sleep is for stabilisation on weaker platforms
                sleep(Duration::from_millis(100));
            });
        }

        // prepare three waves of jobs
        for i in 0..3 * n_workers {
            let p_clock = p_clock.clone();
            let tx = tx.clone();
            let wave_clock = wave_clock.clone();
            p_waiter.execute(move || {
                let now = wave_clock.load(Ordering::SeqCst);
                p_clock.join();
                // submit jobs for the second wave
                p_clock.execute(|| sleep(Duration::from_secs(1)));
                let clock = wave_clock.load(Ordering::SeqCst);
                tx.send((now, clock, i)).unwrap();
            });
        }
        println!("all scheduled at {}", wave_clock.load(Ordering::SeqCst));
        barrier.wait();

        p_clock.join();
        //p_waiter.join();

        drop(tx);
        let mut hist = vec![0; n_cycles];
        let mut data = vec![];
        for (now, after, i) in rx.iter() {
            let mut dur = after - now;
            if dur >= n_cycles - 1 {
                dur = n_cycles - 1;
            }
            hist[dur] += 1;

            data.push((now, after, i));
        }
        for (i, n) in hist.iter().enumerate() {
            println!(
                "\t{}: {} {}",
                i,
                n,
                &*(0..*n).fold("".to_owned(), |s, _| s + "*")
            );
        }
        assert!(data.iter().all(|&(cycle, stop, i)| if i < n_workers {
            cycle == stop
        } else {
            cycle < stop
        }));

        clock_thread.join().unwrap();
    }
}
