#!/usr/bin/env python3
"""Print the markdown table 'which check catches which seeded change' from seeded/*/."""
import json, glob, os, re
rows=[]
for d in sorted(glob.glob('/verif/seeded/*/')):
    id=os.path.basename(d.rstrip('/'))
    try: m=json.load(open(d+'meta.json'))
    except Exception: continue
    if not os.path.exists(d+"detection.txt"):
        rows.append((id,m.get("property","?"),"","(not evaluated yet)","",""));continue
    det=open(d+"detection.txt").read()
    caught=[]; harness=[]
    cls={}
    cur=None
    for line in det.splitlines():
        mm=re.match(r'== (C\d+) exit=(\d)',line)
        if mm:
            cur=mm.group(1)
            if mm.group(2)=='1': caught.append(cur)
            if mm.group(2)=='2': harness.append(cur)
        mm=re.match(r'\s+class: (.*)',line)
        if mm and cur and cur not in cls: cls[cur]=mm.group(1)
    prop=m.get('property','?')
    own = prop in caught
    needs=(m.get('needs') or '').replace('\n',' ').replace('|','/')
    needs=needs[:160]+('…' if len(needs)>160 else '')
    first=cls.get(prop) or (cls.get(caught[0]) if caught else '')
    rows.append((id,prop,needs,', '.join(caught) or '— (missed)', first, ', '.join(harness)))
print('| seeded change | breaks | needs (abridged) | quick checks that report a VIOLATION | first violation class | harness errors |')
print('|---|---|---|---|---|---|')
for r in rows: print('| '+' | '.join(r)+' |')
missed=[r[0] for r in rows if r[3].startswith('—')]
notown=[r[0] for r in rows if not r[3].startswith('—') and r[1] not in r[3]]
print()
print(f'{len(rows)} seeded changes; missed by every check: {missed or "none"}; caught, but not by the check of the property they were written against: {notown or "none"}')
