#!/usr/bin/env python3
import json,sys
r=json.load(open(sys.argv[1]))
print("class:",r['class']); print("detail:",r['detail']); print("note:",r['note'])
for c in r['cases']:
    w=c['world']
    print("cwd:",w['cwd'],"home:",w.get('home'),"xdg:",w.get('xdg'))
    for k,v in w['files'].items():
        b=bytes(v)
        print("  ",k,"=>",repr(b[:200]))
    for i in c['invs']:
        o=i['opts']
        argv=[k+"="+str(v) for k,v in o.items() if v not in (None,False,[],"") ]
        print("  inv:",argv, "faults:",[(f['site'],f['path'],f['kind']) for f in i['faults']], "overrides:",len(i['sched']['overrides']), "dir_key", i['dir_key'], "stdin", bytes(i['stdin'])[:80] if i.get('stdin') else None)
